package main

import (
	"fmt"
	"os"
	"regexp"
	"sort"
	"strings"
	"time"

	"github.com/go-openapi/spec"
	"github.com/go-openapi/validate"
	rt "verif.local/rt"
)

// raceLogPath: GORACE log_path prefix of this process ("" = stderr). The race detector appends ".<pid>".
func raceLogFile() string {
	for _, kv := range strings.Fields(os.Getenv("GORACE")) {
		if strings.HasPrefix(kv, "log_path=") {
			return fmt.Sprintf("%s.%d", kv[len("log_path="):], os.Getpid())
		}
	}
	return ""
}

type raceReport struct {
	Text   string
	Frames [2]string // first go-openapi frame of each of the two conflicting accesses
}

var (
	raceAccessRe = regexp.MustCompile(`^(?:Previous )?(?:[Rr]ead|[Ww]rite|[Aa]tomic [a-z]+) at 0x[0-9a-f]+ by `)
	raceFuncRe   = regexp.MustCompile(`^  (\S+)\(`)
)

// parseRaceReports splits the detector's log into reports and extracts, per report, the innermost frame of
// go-openapi code for each of the two accesses.
func parseRaceReports(log string) []raceReport {
	var out []raceReport
	for _, blk := range strings.Split(log, "==================") {
		if !strings.Contains(blk, "WARNING: DATA RACE") {
			continue
		}
		rr := raceReport{Text: strings.TrimSpace(blk)}
		acc := -1
		for _, l := range strings.Split(blk, "\n") {
			if raceAccessRe.MatchString(l) {
				acc++
				continue
			}
			if strings.HasPrefix(l, "Goroutine ") {
				acc = 99
			}
			if acc < 0 || acc > 1 || rr.Frames[acc] != "" {
				continue
			}
			if m := raceFuncRe.FindStringSubmatch(l); m != nil && strings.Contains(m[1], "github.com/go-openapi/") {
				f := m[1]
				f = strings.TrimPrefix(f, "github.com/go-openapi/")
				rr.Frames[acc] = f
			}
		}
		out = append(out, rr)
	}
	return out
}

func (rr raceReport) site() string {
	a, b := rr.Frames[0], rr.Frames[1]
	if a > b {
		a, b = b, a
	}
	return a + " <-> " + b
}

// concurrentRun executes the tasks of sc under the baton scheduler and returns each task's outcomes.
type concResult struct {
	Outs     [][]Outcome
	Stamps   [][][2]uint64 // per task, per op: global event number at invoke / return
	Run      rt.RunResult
	Races    []raceReport
	NewRaces int
	// TokOverflow: objects that had to share the overflow happens-before token in this run (races may be missed then)
	TokOverflow uint64
}

func runConcurrent(sc *Scenario, sim *rt.Sim, ll []*LLValidator, pre func(task int, op *Op), watchdog time.Duration) *concResult {
	return runConcurrentShared(sc, sim, ll, nil, watchdog)
}

func runConcurrentShared(sc *Scenario, sim *rt.Sim, ll []*LLValidator, shared []*spec.Schema, watchdog time.Duration) *concResult {
	cr := &concResult{Outs: make([][]Outcome, len(sc.Tasks)), Stamps: make([][][2]uint64, len(sc.Tasks))}
	fns := make([]func(), len(sc.Tasks))
	uids := make([]uint32, len(sc.Tasks))
	for ti := range sc.Tasks {
		ti := ti
		uids[ti] = uint32(ti + 1)
		if len(sc.Tasks[ti]) > 0 {
			uids[ti] = sc.Tasks[ti][0].UID | 0x40000000
		}
		fns[ti] = func() {
			env := &Env{LL: ll, Shared: shared}
			outs := make([]Outcome, 0, len(sc.Tasks[ti]))
			stamps := make([][2]uint64, 0, len(sc.Tasks[ti]))
			for i := range sc.Tasks[ti] {
				op := &sc.Tasks[ti][i]
				ctx := &rt.OpCtx{UID: op.UID, Kind: kindNums[op.Kind], OrderSeed: op.OrderSeed, Task: int32(ti)}
				inv := rt.Stamp()
				out := env.Exec(op, ctx)
				stamps = append(stamps, [2]uint64{inv, rt.Stamp()})
				outs = append(outs, out)
			}
			cr.Outs[ti] = outs
			cr.Stamps[ti] = stamps
		}
	}
	before := raceErrors()
	logf := raceLogFile()
	var off int64
	if logf != "" {
		if st, err := os.Stat(logf); err == nil {
			off = st.Size()
		}
	}
	cr.Run = rt.RunTasks(sim, sc.Sched, uids, fns, watchdog)
	cr.NewRaces = raceErrors() - before
	cr.TokOverflow = rt.TokOverflow
	rt.TokOverflow = 0
	if cr.NewRaces > 0 && logf != "" {
		if b, err := os.ReadFile(logf); err == nil && int64(len(b)) > off {
			cr.Races = parseRaceReports(string(b[off:]))
		}
	}
	return cr
}

// raceViolations turns race reports into violations; a report without any go-openapi frame is harness trouble.
func raceViolations(prop string, cr *concResult, rep *RunReport) {
	if cr.NewRaces == 0 {
		return
	}
	if len(cr.Races) == 0 {
		rep.Violations = append(rep.Violations, Violation{Property: prop, Class: "data-race", Site: "(report text not captured: set GORACE=log_path)",
			Detail: fmt.Sprintf("the race detector reported %d data race(s) during this run", cr.NewRaces)})
		return
	}
	seen := map[string]bool{}
	for _, rr := range cr.Races {
		if rr.Frames[0] == "" && rr.Frames[1] == "" {
			rep.HarnessErr = "race report without any go-openapi frame (harness race?):\n" + rr.Text
			return
		}
		s := rr.site()
		if seen[s] {
			continue
		}
		seen[s] = true
		rep.Violations = append(rep.Violations, Violation{Property: prop, Class: "data-race", Site: s, Got: rr.Text, Expected: "no execution contains a data race",
			Detail: "data race reported by the Go race detector under the simulated schedule: " + s})
	}
	sort.Slice(rep.Violations, func(i, j int) bool { return rep.Violations[i].Site < rep.Violations[j].Site })
}

// soloOutcomes computes, before the run and on the controller goroutine, what every operation returns when run alone.
func soloOutcomes(sc *Scenario, oc *oracleCache) [][]Outcome {
	out := make([][]Outcome, len(sc.Tasks))
	for ti := range sc.Tasks {
		out[ti] = make([]Outcome, len(sc.Tasks[ti]))
		for i := range sc.Tasks[ti] {
			out[ti][i] = oc.get(&sc.Tasks[ti][i], sc.LL, "fresh")
		}
	}
	return out
}

func resetForRun() {
	validate.VerifResetGlobals()
}
