package main

// Prop describes how one claimed property is explored.
type Prop struct {
	ID    string
	Level string // evidence level
	// Gen produces the scenario of run number idx for the base seed (a pure function of its arguments).
	Gen func(seed uint64, tier string, idx int) *Scenario
	// Run executes a scenario. keepLog keeps the event log (replay / trace).
	Run func(sc *Scenario, keepLog bool) *RunReport
	// Race: the check is built with -race; violations are confirmed, replayed and minimised in fresh processes only.
	Race bool
	// QuickRuns is the fixed number of runs of the quick tier; ThoroughS the time box of the thorough tier (seconds).
	QuickRuns int
	ThoroughS int
	Rule      string
	Real      []string
	Stub      []string
	Assume    []string
	FaultKind []string
}

var props = map[string]*Prop{}

// genTier is the tier scenarios are being generated for ("thorough" = longer histories, deeper schemas, bigger
// documents). Set before generating; a scenario stays a pure function of (seed, tier, index).
var genTier = "quick"

func deep() bool { return genTier == "thorough" }

func register(p *Prop) { props[p.ID] = p }

var commonReal = []string{
	"github.com/go-openapi/validate (current /repo working tree, rewritten at the seams only)",
	"github.com/go-openapi/validate/post",
	"go-openapi/spec, analysis, loads, swag (real code, map ranges seeded), strfmt, errors, jsonpointer, jsonreference, std",
}

var commonStub = []string{
	"(*sync.Pool).Get/Put as called from package validate -> simulated pool (rt.Sim)",
	"range over map in validate, post, spec, analysis, loads, swag -> seeded order (rt.Iter*)",
}

var sharedHistoryOracle = &oracleCache{}

func init() {
	register(&Prop{
		ID: "C04", Level: "exploration",
		Gen: func(seed uint64, tier string, idx int) *Scenario {
			withSpec := idx%41 == 13 // a few histories with whole-specification validations (0.3 s each)
			if tier == "thorough" {
				withSpec = idx%23 == 7
			}
			return genC04(mixSeed(seed, uint64(idx)), withSpec)
		},
		Run: func(sc *Scenario, keepLog bool) *RunReport {
			return runHistory(sc, sharedHistoryOracle, keepLog, true)
		},
		QuickRuns: 12000, ThoroughS: 1200,
		Rule: "one run = one generated history (1..40 calls mixing AgainstSchema, recycling schema/param/header validators, non-recycling ones, spec validation) under one pool policy; " +
			"non-trivial = at least one object was handed from one operation to a later one; distinct = distinct (operation-kind sequence, set of recycling edges pool:kind>kind)",
		Real: commonReal, Stub: commonStub,
		Assume: []string{
			"oracle = the library itself executing the same call alone with fresh objects (pool Get=New, Put=discard) and the same map order; defects common to both paths are invisible (they belong to input-only properties)",
			"inputs on which the oracle itself panics are excluded from histories",
		},
		FaultKind: []string{"pool-forced-miss", "pool-drop", "pool-clear", "pool-foreign-object"},
	})
}

func mixSeed(a, b uint64) uint64 {
	z := a ^ (b+0x9e3779b97f4a7c15)*0xbf58476d1ce4e5b9
	z = (z ^ (z >> 30)) * 0xbf58476d1ce4e5b9
	z = (z ^ (z >> 27)) * 0x94d049bb133111eb
	return z ^ (z >> 31)
}
