package main

import (
	"bytes"
	"encoding/json"
	"flag"
	"fmt"
	"os"
	"os/exec"
	"path/filepath"
	"regexp"
	"sort"
	"strconv"
	"strings"
	"sync"
	"time"
)

// ---- known findings ----

type Finding struct {
	Status      string `json:"status"` // known | fixed
	Property    string `json:"property"`
	Class       string `json:"class"`
	OpKind      string `json:"op_kind,omitempty"`
	SiteRegex   string `json:"site_regex,omitempty"`
	DetailRegex string `json:"detail_regex,omitempty"` // matched against expected+got+detail
	What        string `json:"what"`
	Commit      string `json:"commit,omitempty"`
}

type FindingsFile struct {
	Findings []Finding `json:"findings"`
}

func loadFindings(path string) []Finding {
	b, err := os.ReadFile(path)
	if err != nil {
		return nil
	}
	var f FindingsFile
	if err := json.Unmarshal(b, &f); err != nil {
		die2("known findings file %s: %v", path, err)
	}
	return f.Findings
}

// matchKnown returns the listed finding (status known) that v is an instance of. Fixed entries suppress nothing.
func matchKnown(fs []Finding, v *Violation) *Finding {
	for i := range fs {
		f := &fs[i]
		if f.Status != "known" || f.Property != v.Property || f.Class != v.Class {
			continue
		}
		if f.OpKind != "" && f.OpKind != v.OpKind {
			continue
		}
		if f.SiteRegex != "" {
			if ok, _ := regexp.MatchString(f.SiteRegex, v.Site); !ok {
				continue
			}
		}
		if f.DetailRegex != "" {
			if ok, _ := regexp.MatchString(f.DetailRegex, v.Expected+"\n"+v.Got+"\n"+v.Detail); !ok {
				continue
			}
		}
		return f
	}
	return nil
}

// ---- orchestration ----

func envInt(name string, def int) int {
	if s := os.Getenv(name); s != "" {
		if v, err := strconv.Atoi(s); err == nil {
			return v
		}
	}
	return def
}

type workerSpec struct {
	offset, stride, max int
	budget              float64
}

// progressBuf collects a worker's stderr and remembers when it last announced a run ("RUN <idx>").
type progressBuf struct {
	mu   sync.Mutex
	buf  bytes.Buffer
	last time.Time
}

func (b *progressBuf) Write(p []byte) (int, error) {
	b.mu.Lock()
	defer b.mu.Unlock()
	if bytes.Contains(p, []byte("RUN ")) {
		b.last = time.Now()
	}
	return b.buf.Write(p)
}

func (b *progressBuf) String() string {
	b.mu.Lock()
	defer b.mu.Unlock()
	return b.buf.String()
}

func (b *progressBuf) sinceProgress() time.Duration {
	b.mu.Lock()
	defer b.mu.Unlock()
	return time.Since(b.last)
}

// stallLimit: a single run that has not finished after this long is not going to (a run takes milliseconds to a few
// seconds; tens of seconds for concurrent whole-spec validations under the race detector on a loaded machine).
const stallLimit = 12 * time.Minute

func spawnWorker(self string, p *Prop, tier string, seed uint64, w workerSpec, timeout time.Duration) (*WorkerResult, error) {
	args := []string{"worker", "-prop", p.ID, "-tier", tier, "-seed", fmt.Sprint(seed),
		"-offset", fmt.Sprint(w.offset), "-stride", fmt.Sprint(w.stride), "-max", fmt.Sprint(w.max), "-budget", fmt.Sprint(w.budget)}
	cmd := exec.Command(self, args...)
	var out bytes.Buffer
	errb := &progressBuf{last: time.Now()}
	cmd.Stdout = &out
	cmd.Stderr = errb
	cmd.Env = append(os.Environ(), "GORACE=halt_on_error=0 exitcode=0 history_size=7 log_path="+raceLogPrefix())
	if err := cmd.Start(); err != nil {
		return nil, err
	}
	done := make(chan error, 1)
	go func() { done <- cmd.Wait() }()
	defer func() {
		if cmd.Process != nil {
			os.Remove(fmt.Sprintf("%s.%d", raceLogPrefix(), cmd.Process.Pid))
		}
	}()
	var werr error
	finished := false
	deadline := time.After(timeout)
	tick := time.NewTicker(5 * time.Second)
	defer tick.Stop()
	for !finished {
		select {
		case werr = <-done:
			finished = true
		case <-tick.C:
			if errb.sinceProgress() > stallLimit {
				_ = cmd.Process.Kill()
				<-done
				if idx, _, ok := crashInfo(errb.String() + "\nfatal error: (killed)\n"); ok {
					// one run never finished: a finding candidate (confirmed by replaying that run under the same limit)
					return &WorkerResult{Prop: p.ID, Stopped: "hang", CrashIdx: idx, CrashMsg: fmt.Sprintf("a run did not finish within %v", stallLimit), NextIdx: idx + w.stride}, nil
				}
				return nil, fmt.Errorf("worker made no progress for %v\n%s", stallLimit, tail(errb.String(), 2000))
			}
		case <-deadline:
			_ = cmd.Process.Kill()
			<-done
			return nil, fmt.Errorf("worker watchdog (%v) expired\n%s", timeout, tail(errb.String(), 2000))
		}
	}
	{
		err := werr
		if err != nil {
			if ee, ok := err.(*exec.ExitError); ok && ee.ExitCode() == 66 && p.Race {
				// exit code 66 = the race detector's own exit code; the worker's JSON is still complete
			} else if out.Len() == 0 {
				if idx, msg, ok := crashInfo(errb.String()); ok {
					// the library brought the process down (fatal error / unrecovered panic): a finding, not harness trouble
					return &WorkerResult{Prop: p.ID, Stopped: "crash", CrashIdx: idx, CrashMsg: msg, NextIdx: idx + w.stride}, nil
				}
				return nil, fmt.Errorf("worker failed: %v\n%s", err, tail(errb.String(), 4000))
			}
		}
	}
	var res WorkerResult
	line := lastJSONLine(out.Bytes())
	if err := json.Unmarshal(line, &res); err != nil {
		return nil, fmt.Errorf("worker output not understood: %v\nstdout: %s\nstderr: %s", err, tail(out.String(), 2000), tail(errb.String(), 4000))
	}
	if len(res.HarnessErrs) > 0 {
		return &res, fmt.Errorf("worker reported harness errors: %s", strings.Join(res.HarnessErrs, "; "))
	}
	return &res, nil
}

// crashInfo extracts the index of the run a worker died in and the first line of the Go runtime's fatal message.
func crashInfo(stderr string) (int, string, bool) {
	idx, msg := -1, ""
	for _, l := range strings.Split(stderr, "\n") {
		if strings.HasPrefix(l, "RUN ") {
			if v, err := strconv.Atoi(strings.TrimSpace(l[4:])); err == nil {
				idx = v
			}
		}
		if msg == "" && (strings.HasPrefix(l, "fatal error:") || strings.HasPrefix(l, "panic:")) {
			msg = strings.TrimSpace(l)
		}
	}
	return idx, msg, idx >= 0 && msg != ""
}

var (
	raceLogDir  string
	raceLogOnce sync.Once
)

// raceLogPrefix: where child processes write race reports (GORACE log_path); the directory lives beside the binary,
// i.e. inside the scratch directory of this check, and disappears with it.
func raceLogPrefix() string {
	raceLogOnce.Do(func() {
		self, _ := os.Executable()
		raceLogDir = filepath.Join(filepath.Dir(self), "racelogs")
		_ = os.MkdirAll(raceLogDir, 0o755)
	})
	return filepath.Join(raceLogDir, "race")
}

func lastJSONLine(b []byte) []byte {
	lines := bytes.Split(bytes.TrimSpace(b), []byte("\n"))
	for i := len(lines) - 1; i >= 0; i-- {
		if len(lines[i]) > 0 && lines[i][0] == '{' {
			return lines[i]
		}
	}
	return b
}

func tail(s string, n int) string {
	if len(s) <= n {
		return s
	}
	return "…" + s[len(s)-n:]
}

type replayOut struct {
	EventHash  string      `json:"event_hash"`
	Violations []Violation `json:"violations"`
	HarnessErr string      `json:"harness_err"`
}

// replayFresh runs a scenario file in a fresh process.
func replayFresh(self, file string, timeout time.Duration) (*replayOut, error) {
	ro, err := replayFresh1(self, file, timeout)
	return ro, err
}

func replayFresh1(self, file string, timeout time.Duration) (*replayOut, error) {
	cmd := exec.Command(self, "replay", "-quiet", "-file", file)
	var out, errb bytes.Buffer
	cmd.Stdout = &out
	cmd.Stderr = &errb
	cmd.Env = append(os.Environ(), "GORACE=halt_on_error=0 exitcode=0 history_size=7 log_path="+raceLogPrefix())
	if err := cmd.Start(); err != nil {
		return nil, err
	}
	done := make(chan error, 1)
	go func() { done <- cmd.Wait() }()
	defer func() {
		if cmd.Process != nil {
			os.Remove(fmt.Sprintf("%s.%d", raceLogPrefix(), cmd.Process.Pid))
		}
	}()
	select {
	case <-done:
	case <-time.After(timeout):
		_ = cmd.Process.Kill()
		return nil, fmt.Errorf("replay watchdog expired")
	}
	for _, l := range strings.Split(out.String(), "\n") {
		if strings.HasPrefix(l, "REPLAY-RESULT ") {
			var ro replayOut
			if err := json.Unmarshal([]byte(l[len("REPLAY-RESULT "):]), &ro); err != nil {
				return nil, err
			}
			if ro.HarnessErr != "" {
				return &ro, fmt.Errorf("harness error in replay: %s", ro.HarnessErr)
			}
			return &ro, nil
		}
	}
	if _, msg, ok := crashInfo("RUN 0\n" + errb.String()); ok {
		// the replayed scenario brings the process down: that is the violation
		prop := ""
		if sc, err := readScenario(file); err == nil {
			prop = sc.Property
		}
		return &replayOut{EventHash: "crash", Violations: []Violation{{Property: prop, Class: "crash", Site: msg,
			Got: tail(errb.String(), 1500), Expected: "every validation returns normally",
			Detail: "the process dies with a Go runtime fatal error / unrecovered panic while executing this history: " + msg}}}, nil
	}
	return nil, fmt.Errorf("replay produced no result\nstdout: %s\nstderr: %s", tail(out.String(), 1500), tail(errb.String(), 3000))
}

func hasSig(vs []Violation, sig string) *Violation {
	for i := range vs {
		if vs[i].Sig() == sig {
			return &vs[i]
		}
	}
	return nil
}

func checkMain(args []string) {
	fs := flag.NewFlagSet("check", flag.ExitOnError)
	propID := fs.String("prop", "", "property id")
	tier := fs.String("tier", "quick", "quick | thorough")
	evidence := fs.String("evidence", "", "evidence file to write")
	violDir := fs.String("violdir", "/verif/violations", "directory for replay files")
	knownFile := fs.String("known", "/verif/known_findings.json", "known findings")
	_ = fs.Parse(args)
	p := props[*propID]
	if p == nil {
		die2("unknown property %q", *propID)
	}
	start := time.Now()
	genTier = *tier
	seed := envSeed()
	jobs := envInt("VERIF_JOBS", 16)
	self, err := os.Executable()
	if err != nil {
		die2("%v", err)
	}
	known := loadFindings(*knownFile)

	totalRuns := envInt("VERIF_RUNS", p.QuickRuns)
	budget := 0.0
	if *tier == "thorough" {
		budget = float64(envInt("VERIF_BUDGET_S", p.ThoroughS))
		totalRuns = 1 << 30
	}
	perWorker := (totalRuns + jobs - 1) / jobs
	watchdog := 40 * time.Minute
	if budget > 0 {
		watchdog = time.Duration(budget*2)*time.Second + 20*time.Minute
	}

	var mu sync.Mutex
	var results []*WorkerResult
	var werrs []string
	var wg sync.WaitGroup
	for w := 0; w < jobs; w++ {
		wg.Add(1)
		go func(w int) {
			defer wg.Done()
			offset, left := w, perWorker
			deadline := start.Add(time.Duration(budget) * time.Second)
			for left > 0 {
				b := 0.0
				if budget > 0 {
					b = time.Until(deadline).Seconds()
					if b <= 1 {
						return
					}
				}
				res, err := spawnWorker(self, p, *tier, seed, workerSpec{offset: offset, stride: jobs, max: left, budget: b}, watchdog)
				mu.Lock()
				if res != nil {
					results = append(results, res)
				}
				if err != nil {
					werrs = append(werrs, err.Error())
					mu.Unlock()
					return
				}
				mu.Unlock()
				if res.Stopped == "crash" || res.Stopped == "hang" {
					left -= (res.CrashIdx-offset)/jobs + 1
					offset = res.NextIdx
					continue
				}
				if res.Stopped != "race" {
					return
				}
				// a race worker stops at its first report: carry on in a fresh process
				left -= res.Runs
				offset = res.NextIdx
			}
		}(w)
	}
	wg.Wait()
	// (harness trouble in some worker does not hide what the others found: it is reported at the end, see below)

	// ---- aggregate ----
	agg := &WorkerResult{Prop: p.ID, Stats: map[string]uint64{}, Edges: map[string]int{}, Faults: map[string]int{}, Probes: map[string]int{}}
	sigs := map[uint64]struct{}{}
	for _, r := range results {
		agg.Runs += r.Runs
		agg.NonTrivial += r.NonTrivial
		agg.Ops += r.Ops
		agg.Excluded += r.Excluded
		agg.Steps += r.Steps
		for k, v := range r.Stats {
			agg.Stats[k] += v
		}
		for k, v := range r.Edges {
			agg.Edges[k] += v
		}
		for k, v := range r.Faults {
			agg.Faults[k] += v
		}
		for k, v := range r.Probes {
			agg.Probes[k] += v
		}
		for _, s := range r.Signatures {
			sigs[s] = struct{}{}
		}
		agg.Violations = append(agg.Violations, r.Violations...)
		if r.Stopped == "hang" {
			agg.Probes["worker-runs-that-never-finished"]++
			agg.Violations = append(agg.Violations, FoundViolation{Scenario: p.Gen(seed, *tier, r.CrashIdx), Idx: r.CrashIdx,
				Violation: Violation{Property: p.ID, Class: "no-return", Site: "run does not finish",
					Expected: "every call returns", Got: r.CrashMsg,
					Detail: "a call of this history never returns (or takes unboundedly long: something grows without bound): " + r.CrashMsg}})
		}
		if r.Stopped == "crash" {
			agg.Probes["worker-process-crashes"]++
			agg.Violations = append(agg.Violations, FoundViolation{Scenario: p.Gen(seed, *tier, r.CrashIdx), Idx: r.CrashIdx,
				Violation: Violation{Property: p.ID, Class: "crash", Site: r.CrashMsg}})
		}
		if len(agg.Samples) < 4 {
			agg.Samples = append(agg.Samples, r.Samples...)
		}
	}
	sort.Slice(agg.Violations, func(i, j int) bool { return agg.Violations[i].Idx < agg.Violations[j].Idx })

	// ---- violations: confirm in a fresh process, minimise, classify ----
	_ = os.MkdirAll(*violDir, 0o755)
	bySig := map[string][]FoundViolation{}
	var sigOrder []string
	for _, fv := range agg.Violations {
		s := fv.Violation.Sig()
		if _, ok := bySig[s]; !ok {
			sigOrder = append(sigOrder, s)
		}
		bySig[s] = append(bySig[s], fv)
	}
	newViolations := 0
	knownHits := map[string]int{}
	var reportLines []string
	var violationSamples []json.RawMessage
	for si, s := range sigOrder {
		if si >= 6 {
			break
		}
		fv := bySig[s][0]
		tmp := filepath.Join(*violDir, fmt.Sprintf("%s-%d-%d.candidate.json", p.ID, seed, si))
		sc := fv.Scenario.Clone()
		if err := writeScenario(tmp, sc); err != nil {
			die2("%v", err)
		}
		// confirm in a fresh process. The execution must be identical (event-log hash); a race REPORT is the race
		// detector's business and is not guaranteed for every identical execution (it has to restore the stack of the
		// older access from a bounded per-thread history), so several attempts are made for that class.
		if fv.Violation.Class == "no-return" {
			// confirmed iff the run does not finish in a fresh process either; not minimised (every candidate would cost the limit)
			_, err := replayFresh1(self, tmp, stallLimit)
			if err == nil || !strings.Contains(err.Error(), "replay watchdog expired") {
				// not confirmed: harness trouble (reported as such unless something else was found)
				werrs = append(werrs, fmt.Sprintf("a worker made no progress on run %d for %v, but the run did not hang again in a fresh process (overloaded machine?): %v (see %s)", fv.Idx, stallLimit, err, tmp))
				continue
			}
			final := filepath.Join(*violDir, fmt.Sprintf("%s-%d-%d.json", p.ID, seed, si))
			v := fv.Violation
			sc.Expect = &v
			_ = writeScenario(final, sc)
			os.Remove(tmp)
			vs, _ := json.Marshal(map[string]any{"signature": s, "runs_showing_it": len(bySig[s]), "first_run_index": fv.Idx, "replay": final, "detail": v.Detail})
			violationSamples = append(violationSamples, vs)
			newViolations++
			reportLines = append(reportLines, fmt.Sprintf("VIOLATION property=%s replay=%s", p.ID, final))
			fmt.Printf("--- violation %s\n    %s\n", s, v.Detail)
			continue
		}
		attempts := 1
		if fv.Violation.Class == "data-race" {
			attempts = 8
		}
		var ro *replayOut
		var cv *Violation
		hashOK := true
		for a := 0; a < attempts && cv == nil; a++ {
			var err error
			ro, err = replayFresh(self, tmp, 10*time.Minute)
			if err != nil {
				die2("confirming a violation: %v", err)
			}
			hashOK = fv.Violation.Class == "crash" || ro.EventHash == fmt.Sprintf("%016x", fv.EventHash)
			if !hashOK {
				break
			}
			cv = hasSig(ro.Violations, s)
		}
		if (cv == nil || !hashOK) && len(fv.History) > 0 && fv.Violation.Class != "crash" {
			// not reproduced from the scenario alone: the violation may depend on process-wide state that earlier runs
			// of the same worker process left behind (state the harness cannot reset because it does not know it).
			// Replay with those runs as prelude, then shrink the prelude.
			withPre := sc.Clone()
			withPre.PreludeRef = &PreludeRef{Seed: seed, Tier: *tier, Idx: fv.History}
			try := func(c *Scenario) (*replayOut, *Violation) {
				if writeScenario(tmp, c) != nil {
					return nil, nil
				}
				for a := 0; a < attempts; a++ {
					r, err := replayFresh(self, tmp, 20*time.Minute)
					if err != nil {
						return nil, nil
					}
					if v := hasSig(r.Violations, s); v != nil {
						return r, v
					}
				}
				return nil, nil
			}
			if r, v := try(withPre); v != nil && r.EventHash == fmt.Sprintf("%016x", fv.EventHash) {
				// ddmin over the prelude indices
				idxs := withPre.PreludeRef.Idx
				deadline := time.Now().Add(120 * time.Second)
				for chunk := len(idxs) / 2; chunk >= 1 && time.Now().Before(deadline); {
					removed := false
					for start := 0; start < len(idxs) && time.Now().Before(deadline); {
						end := start + chunk
						if end > len(idxs) {
							end = len(idxs)
						}
						c := withPre.Clone()
						c.PreludeRef.Idx = append(append([]int{}, idxs[:start]...), idxs[end:]...)
						if _, v2 := try(c); v2 != nil {
							idxs = c.PreludeRef.Idx
							withPre = c
							removed = true
						} else {
							start = end
						}
					}
					if !removed || chunk == 1 {
						chunk /= 2
					}
				}
				genTier = *tier
				embedPrelude(p, withPre)
				sc = withPre
				if err := writeScenario(tmp, sc); err != nil {
					die2("%v", err)
				}
				r2, v2 := try(sc)
				if v2 == nil {
					werrs = append(werrs, fmt.Sprintf("nondeterministic harness: violation %s of run %d reproduced with its prelude by index but not with the embedded prelude (see %s)", s, fv.Idx, tmp))
					continue
				}
				ro, cv, hashOK = r2, v2, true
				fv.EventHash = 0
			} else {
				_ = writeScenario(tmp, sc)
			}
		}
		if !hashOK {
			werrs = append(werrs, fmt.Sprintf("nondeterministic harness: event log of run %d differs between worker (%016x) and fresh replay (%s), also with the worker's earlier runs as prelude (see %s)", fv.Idx, fv.EventHash, ro.EventHash, tmp))
			continue
		}
		unconfirmed := false
		if cv == nil {
			if fv.Violation.Class != "data-race" {
				werrs = append(werrs, fmt.Sprintf("nondeterministic harness: violation %s found in run %d does not reproduce from its scenario in a fresh process (see %s)", s, fv.Idx, tmp))
				continue
			}
			// the same execution replayed 8 times without the detector reporting again: the worker's report stands
			// (the detector has no false positives and both stacks are in go-openapi code), it is just not minimised
			unconfirmed = true
			v := fv.Violation
			cv = &v
		}
		if kf := matchKnown(known, cv); kf != nil {
			// a listed finding: reported as such, not minimised again on every run
			final := filepath.Join(*violDir, fmt.Sprintf("%s-%d-%d.known.json", p.ID, seed, si))
			sc.Expect = cv
			sc.Hash = ro.EventHash
			_ = writeScenario(final, sc)
			os.Remove(tmp)
			knownHits[kf.What]++
			reportLines = append(reportLines, fmt.Sprintf("KNOWN-FINDING: property=%s %s (replay=%s)", p.ID, kf.What, final))
			continue
		}
		// minimise
		test := func(c *Scenario) bool {
			// always in a fresh process: a corrupted pool can bring the whole process down, and race reports are
			// de-duplicated per process
			f := tmp + ".min-candidate"
			if writeScenario(f, c) != nil {
				return false
			}
			tries := 1
			if fv.Violation.Class == "data-race" {
				tries = 3
			}
			for a := 0; a < tries; a++ {
				r2, err := replayFresh(self, f, 5*time.Minute)
				if err == nil && hasSig(r2.Violations, s) != nil {
					return true
				}
			}
			return false
		}
		minBudget := 45 * time.Second
		if *tier == "thorough" {
			minBudget = 180 * time.Second
		}
		maxCand := 400
		if unconfirmed {
			maxCand = 0
		}
		minSc, tried := minimize(sc, &fv.Violation, test, maxCand, minBudget)
		os.Remove(tmp + ".min-candidate")
		final := filepath.Join(*violDir, fmt.Sprintf("%s-%d-%d.json", p.ID, seed, si))
		minSc.Expect = &fv.Violation
		if err := writeScenario(final, minSc); err != nil {
			die2("%v", err)
		}
		var ro2 *replayOut
		var err error
		for a := 0; a < attempts; a++ {
			ro2, err = replayFresh(self, final, 10*time.Minute)
			if err != nil || hasSig(ro2.Violations, s) != nil {
				break
			}
		}
		if unconfirmed {
			ro2 = &replayOut{EventHash: ro.EventHash, Violations: []Violation{*cv}}
			err = nil
		}
		if err != nil || hasSig(ro2.Violations, s) == nil {
			// the minimised scenario must fail the same way in a fresh process; fall back to the unminimised one
			minSc = sc
			minSc.Expect = &fv.Violation
			_ = writeScenario(final, minSc)
			ro2 = ro
		}
		fin := hasSig(ro2.Violations, s)
		if fin == nil {
			fin = cv
		}
		if unconfirmed {
			fin.Detail += " [race report captured in the exploring process; the identical execution replayed 8 times in fresh processes without the detector reporting again]"
		}
		minSc.Expect = fin
		minSc.Hash = ro2.EventHash
		_ = writeScenario(final, minSc)
		os.Remove(tmp)
		vs, _ := json.Marshal(map[string]any{"signature": s, "runs_showing_it": len(bySig[s]), "first_run_index": fv.Idx,
			"ops_before_minimisation": sc.NumOps(), "ops_after": minSc.NumOps(), "candidates_tried": tried, "replay": final, "detail": fin.Detail})
		violationSamples = append(violationSamples, vs)
		if kf := matchKnown(known, fin); kf != nil {
			knownHits[kf.What]++
			reportLines = append(reportLines, fmt.Sprintf("KNOWN-FINDING: property=%s %s (replay=%s)", p.ID, kf.What, final))
			continue
		}
		newViolations++
		reportLines = append(reportLines, fmt.Sprintf("VIOLATION property=%s replay=%s", p.ID, final))
		fmt.Printf("--- violation %s\n    %s\n--- expected\n%s\n--- got\n%s\n", s, fin.Detail, indent(fin.Expected), indent(fin.Got))
	}

	wall := time.Since(start).Seconds()
	// ---- evidence ----
	if *evidence != "" {
		samples := agg.Samples
		if len(samples) == 0 {
			samples = []json.RawMessage{json.RawMessage(`"no non-trivial run sampled"`)}
		}
		cov := map[string]any{
			"evaluations":                       agg.Runs,
			"distinct_nontrivial":               len(sigs),
			"rule":                              p.Rule,
			"samples":                           samples,
			"nontrivial_runs":                   agg.NonTrivial,
			"operations_executed":               agg.Ops,
			"operations_excluded_oracle_panics": agg.Excluded,
			"logical_steps":                     agg.Steps,
			"runs_per_hour":                     int(float64(agg.Runs) / wall * 3600),
			"simulated_time":                    fmt.Sprintf("%d logical steps (pool/sync events); the library has no clock, so no simulated seconds", agg.Steps),
			"sim_stats":                         agg.Stats,
			"fault_kinds_fired":                 faultCounts(p, agg),
			"recycling_edges":                   len(agg.Edges),
			"recycling_edges_top":               topEdges(agg.Edges, 12),
			"probes":                            agg.Probes,
			"components_real":                   p.Real,
			"components_stubbed":                p.Stub,
			"workers":                           jobs,
			"violation_reports":                 violationSamples,
			"known_findings_hit":                knownHits,
		}
		ev := map[string]any{
			"property_id": p.ID, "tier": *tier, "seed": int64(seed), "level": p.Level,
			"coverage": cov, "assumptions": p.Assume, "wall_s": wall, "violations": newViolations,
		}
		b, _ := json.MarshalIndent(ev, "", " ")
		_ = os.MkdirAll(filepath.Dir(*evidence), 0o755)
		if err := os.WriteFile(*evidence, b, 0o644); err != nil {
			die2("%v", err)
		}
	}
	fmt.Printf("%s %s: runs=%d nontrivial=%d distinct=%d ops=%d steps=%d wall=%.1fs violations=%d known=%d\n",
		p.ID, *tier, agg.Runs, agg.NonTrivial, len(sigs), agg.Ops, agg.Steps, wall, newViolations, len(knownHits))
	for _, l := range reportLines {
		fmt.Println(l)
	}
	if newViolations > 0 {
		if len(werrs) > 0 {
			fmt.Fprintf(os.Stderr, "NOTE: some workers also reported harness trouble:\n%s\n", strings.Join(werrs, "\n---\n"))
		}
		os.Exit(1)
	}
	if len(werrs) > 0 {
		die2("%s", strings.Join(werrs, "\n---\n"))
	}
}

func indent(s string) string {
	return "    " + strings.ReplaceAll(s, "\n", "\n    ")
}

func faultCounts(p *Prop, agg *WorkerResult) map[string]uint64 {
	m := map[string]uint64{
		"pool-forced-miss (Get answered by New although objects were free)": agg.Stats["ForcedMiss"],
		"pool-drop (Put dropped the object)":                                agg.Stats["Drops"],
		"pool-clear (all pools emptied at an operation boundary)":           agg.Stats["Clears"],
		"pool-foreign-object (object recycled into a different operation)":  agg.Stats["ForeignRecycles"],
		"pool-cross-task-object (object recycled into another task)":        agg.Stats["CrossTaskRecycles"],
		"context-switches": agg.Stats["Switches"],
		"mutex-contended":  agg.Stats["MutexBlocked"],
	}
	for k, v := range agg.Faults {
		m[k] = uint64(v)
	}
	return m
}

func topEdges(e map[string]int, n int) []string {
	type kv struct {
		k string
		v int
	}
	var l []kv
	for k, v := range e {
		l = append(l, kv{k, v})
	}
	sort.Slice(l, func(i, j int) bool {
		if l[i].v != l[j].v {
			return l[i].v > l[j].v
		}
		return l[i].k < l[j].k
	})
	var out []string
	for i := 0; i < len(l) && i < n; i++ {
		out = append(out, fmt.Sprintf("%s x%d", l[i].k, l[i].v))
	}
	return out
}
