package main

import (
	"encoding/json"
	"fmt"
	"os"
	"path/filepath"
	"sort"
	"strings"
)

// Rand: splitmix64. Every generated choice of a scenario comes from one of these, seeded from VERIF_SEED.
type Rand struct{ s uint64 }

func NewRand(seed uint64) *Rand { return &Rand{s: seed*0x9e3779b97f4a7c15 + 0x1234567} }

func (r *Rand) U64() uint64 {
	r.s += 0x9e3779b97f4a7c15
	z := r.s
	z = (z ^ (z >> 30)) * 0xbf58476d1ce4e5b9
	z = (z ^ (z >> 27)) * 0x94d049bb133111eb
	return z ^ (z >> 31)
}
func (r *Rand) Intn(n int) int {
	if n <= 0 {
		return 0
	}
	return int(r.U64() % uint64(n))
}
func (r *Rand) Chance(pm int) bool { return r.Intn(1000) < pm }
func (r *Rand) Range(lo, hi int) int {
	if hi <= lo {
		return lo
	}
	return lo + r.Intn(hi-lo+1)
}
func pick[T any](r *Rand, xs []T) T { return xs[r.Intn(len(xs))] }

func (r *Rand) Fork() *Rand { return NewRand(r.U64()) }

type M = map[string]any

func js(v any) string {
	b, err := json.Marshal(v)
	if err != nil {
		panic(err)
	}
	return string(b)
}

// ---- vocabulary: small alphabets so that constraints of different operations collide and differ ----

var (
	propNames   = []string{"a", "b", "c", "d", "e"}
	patterns    = []string{"^a", "b$", "^[a-c]+$", "x", "^.{2}$", "^A", "^a$", "[0-9]+", "^(ab)*$", "("}
	ppPatterns  = []string{"^a", "^[a-b]$", "c", "^d.*", "e$", "("}
	formats     = []string{"date", "email", "uuid", "ipv4", "date-time", "hostname", "uri", "unknownfmt"}
	numBounds   = []float64{-2, 0, 1, 2, 3, 5, 10, 10.5, 100}
	multiples   = []float64{1, 2, 3, 0.5, 5, 0.1}
	lens        = []int{0, 1, 2, 3, 5}
	strSamples  = []string{"", "a", "b", "ab", "abc", "aa", "A", "x", "abab", "2020-01-01", "a@b.co", "127.0.0.1", "12", "bcd", "é", "d1", "e"}
	numSamples  = []any{0, 1, 2, 3, 4, 5, 6, 10, 11, -1, -3, 1.5, 2.5, 10.5, 100, 1e3, 0.3}
	primTypes   = []string{"string", "integer", "number", "boolean", "null"}
	simpleTypes = []string{"string", "integer", "number", "boolean", "array"}
)

// Gen builds schemas and instances. Depth-limited, biased towards "revealer" shapes: compositions whose members are of
// different kinds, early exits, invalid verdicts.
type Gen struct {
	r *Rand
}

func (g *Gen) numeric(s M) {
	r := g.r
	if r.Chance(600) {
		s["minimum"] = pick(r, numBounds)
		if r.Chance(250) {
			s["exclusiveMinimum"] = true
		}
	}
	if r.Chance(600) {
		s["maximum"] = pick(r, numBounds)
		if r.Chance(250) {
			s["exclusiveMaximum"] = true
		}
	}
	if r.Chance(350) {
		s["multipleOf"] = pick(r, multiples)
	}
}

func (g *Gen) stringy(s M, allowFormat bool) {
	r := g.r
	if r.Chance(400) {
		s["minLength"] = pick(r, lens)
	}
	if r.Chance(400) {
		s["maxLength"] = pick(r, lens)
	}
	if r.Chance(450) {
		s["pattern"] = pick(r, patterns)
	}
	if allowFormat && r.Chance(350) {
		s["format"] = pick(r, formats)
	}
}

func (g *Gen) enum() []any {
	r := g.r
	n := r.Range(1, 4)
	out := make([]any, 0, n)
	for i := 0; i < n; i++ {
		switch r.Intn(6) {
		case 0:
			out = append(out, pick(r, strSamples))
		case 1:
			out = append(out, pick(r, numSamples))
		case 2:
			out = append(out, r.Chance(500))
		case 3:
			out = append(out, nil)
		case 4:
			out = append(out, []any{pick(r, numSamples)})
		default:
			out = append(out, M{pick(r, propNames): pick(r, numSamples)})
		}
	}
	return out
}

// Schema generates a draft-4 schema (as a JSON-able map) of at most the given depth.
func (g *Gen) Schema(depth int) M {
	r := g.r
	s := M{}
	shape := r.Intn(100)
	if depth <= 0 && shape >= 45 {
		shape = r.Intn(45)
	}
	switch {
	case shape < 12: // integer / number
		s["type"] = pick(r, []string{"integer", "number"})
		g.numeric(s)
		if r.Chance(150) {
			s["format"] = pick(r, []string{"int32", "int64", "float", "double", "uint32"})
		}
	case shape < 24: // string
		s["type"] = "string"
		g.stringy(s, true)
	case shape < 28:
		s["type"] = pick(r, []string{"boolean", "null"})
	case shape < 34: // several types
		ts := []any{pick(r, primTypes), pick(r, primTypes)}
		s["type"] = ts
		g.numeric(s)
		g.stringy(s, false)
	case shape < 40: // enum
		s["enum"] = g.enum()
		if r.Chance(300) {
			s["type"] = pick(r, primTypes)
		}
	case shape < 45: // untyped constraints: apply only when the instance kind matches
		g.numeric(s)
		g.stringy(s, false)
		if r.Chance(300) {
			s["minItems"] = pick(r, lens)
		}
		if r.Chance(300) {
			s["maxProperties"] = pick(r, lens)
		}
	case shape < 49: // overlapping patternProperties: one member name matches several patterns, each with its own schema
		s["type"] = "object"
		pp := M{}
		for _, p := range [][]string{{"^a", "^[a-b]", "a"}, {"c", "^c", "c$"}, {"^d.*", "d", "^d"}}[r.Intn(3)][:r.Range(2, 3)] {
			pp[p] = g.Schema(0)
		}
		s["patternProperties"] = pp
		if r.Chance(300) {
			s["additionalProperties"] = false
		}
	case shape < 62: // object
		g.object(s, depth)
	case shape < 74: // array
		g.array(s, depth)
	case shape < 92: // composition
		g.composition(s, depth)
	default: // not
		s["not"] = g.Schema(depth - 1)
		if r.Chance(400) {
			s["type"] = pick(r, primTypes)
		}
	}
	return s
}

func (g *Gen) object(s M, depth int) {
	r := g.r
	if r.Chance(800) {
		s["type"] = "object"
	}
	np := r.Range(0, 3)
	props := M{}
	for i := 0; i < np; i++ {
		ps := g.Schema(depth - 1)
		if r.Chance(200) {
			// a default: an absent member counts as created from its default (required, defaulter bookkeeping)
			ps["default"] = pick(r, []any{"x", 1, 0, true, nil, "2020-01-01"})
		}
		props[pick(r, propNames)] = ps
	}
	if len(props) > 0 {
		s["properties"] = props
	}
	if r.Chance(500) {
		req := []any{}
		for i := 0; i < r.Range(1, 2); i++ {
			req = append(req, pick(r, propNames))
		}
		s["required"] = req
	}
	switch r.Intn(5) {
	case 0:
		s["additionalProperties"] = false
	case 1:
		s["additionalProperties"] = g.Schema(depth - 1)
	case 2:
		s["additionalProperties"] = true
	}
	if r.Chance(300) {
		pp := M{}
		for i := 0; i < r.Range(1, 2); i++ {
			pp[pick(r, ppPatterns)] = g.Schema(depth - 1)
		}
		s["patternProperties"] = pp
	}
	if r.Chance(250) {
		s["minProperties"] = pick(r, lens)
	}
	if r.Chance(250) {
		s["maxProperties"] = pick(r, lens)
	}
	if r.Chance(250) {
		deps := M{}
		for i := 0; i < pick(r, []int{1, 1, 2, 3}); i++ { // one or several members with a dependency each
			k := pick(r, propNames)
			if r.Chance(500) {
				deps[k] = []any{pick(r, propNames)}
			} else {
				deps[k] = g.Schema(depth - 1)
			}
		}
		s["dependencies"] = deps
	}
}

func (g *Gen) array(s M, depth int) {
	r := g.r
	if r.Chance(800) {
		s["type"] = "array"
	}
	switch r.Intn(4) {
	case 0, 1:
		s["items"] = g.Schema(depth - 1)
	case 2:
		n := r.Range(1, 3)
		t := make([]any, 0, n)
		for i := 0; i < n; i++ {
			t = append(t, g.Schema(depth-1))
		}
		s["items"] = t
		switch r.Intn(4) {
		case 0:
			s["additionalItems"] = false
		case 1:
			s["additionalItems"] = true
		case 2:
			s["additionalItems"] = g.Schema(depth - 1)
		}
	}
	if r.Chance(350) {
		s["minItems"] = pick(r, lens)
	}
	if r.Chance(350) {
		s["maxItems"] = pick(r, lens)
	}
	if r.Chance(300) {
		s["uniqueItems"] = true
	}
}

func (g *Gen) composition(s M, depth int) {
	r := g.r
	kw := pick(r, []string{"allOf", "anyOf", "oneOf", "allOf", "anyOf", "oneOf", "mixed"})
	members := func() []any {
		n := r.Range(2, 3)
		out := make([]any, 0, n)
		for i := 0; i < n; i++ {
			out = append(out, g.Schema(depth-1))
		}
		return out
	}
	if kw == "mixed" {
		s[pick(r, []string{"allOf", "anyOf"})] = members()
		s["oneOf"] = members()
	} else {
		s[kw] = members()
	}
	if r.Chance(300) {
		s["type"] = pick(r, append(primTypes, "object", "array"))
		if s["type"] == "string" && r.Chance(600) {
			g.stringy(s, true) // string keywords and a format next to allOf/anyOf/oneOf/not: the members run first
		}
	}
	if r.Chance(200) {
		g.numeric(s)
	}
	if r.Chance(200) {
		s["not"] = g.Schema(depth - 1)
	}
}

// WithRefs moves some sub-schemas of s into definitions and refers to them by local $ref.
func (g *Gen) WithRefs(s M) M {
	r := g.r
	defs := M{}
	var walk func(m M, depth int)
	n := 0
	walk = func(m M, depth int) {
		keys := make([]string, 0, len(m))
		for k := range m {
			keys = append(keys, k)
		}
		sort.Strings(keys)
		for _, k := range keys {
			v := m[k]
			switch k {
			case "items", "additionalProperties", "additionalItems", "not":
				if sub, ok := v.(M); ok {
					if r.Chance(350) && n < 3 {
						n++
						name := fmt.Sprintf("d%d", n)
						defs[name] = sub
						m[k] = M{"$ref": "#/definitions/" + name}
					} else {
						walk(sub, depth+1)
					}
				}
			case "properties", "patternProperties":
				if pm, ok := v.(M); ok {
					pk := make([]string, 0, len(pm))
					for kk := range pm {
						pk = append(pk, kk)
					}
					sort.Strings(pk)
					for _, kk := range pk {
						if sub, ok := pm[kk].(M); ok {
							if r.Chance(350) && n < 3 {
								n++
								name := fmt.Sprintf("d%d", n)
								defs[name] = sub
								pm[kk] = M{"$ref": "#/definitions/" + name}
							} else {
								walk(sub, depth+1)
							}
						}
					}
				}
			case "allOf", "anyOf", "oneOf":
				if arr, ok := v.([]any); ok {
					for i := range arr {
						if sub, ok := arr[i].(M); ok {
							if r.Chance(300) && n < 3 {
								n++
								name := fmt.Sprintf("d%d", n)
								defs[name] = sub
								arr[i] = M{"$ref": "#/definitions/" + name}
							} else {
								walk(sub, depth+1)
							}
						}
					}
				}
			}
		}
	}
	walk(s, 0)
	if len(defs) > 0 {
		s["definitions"] = defs
	}
	return s
}

// Instance generates an instance that leans towards (or away from) satisfying s.
func (g *Gen) Instance(s M, depth int, valid bool) any {
	r := g.r
	if s == nil || depth > 4 || r.Chance(60) {
		return g.junk(2)
	}
	if ref, ok := s["$ref"].(string); ok {
		_ = ref
		return g.junk(2)
	}
	if e, ok := s["enum"].([]any); ok && len(e) > 0 && (valid || r.Chance(500)) {
		return pick(r, e)
	}
	for _, kw := range []string{"allOf", "anyOf", "oneOf"} {
		if arr, ok := s[kw].([]any); ok && len(arr) > 0 && r.Chance(700) {
			if sub, ok := pick(r, arr).(M); ok {
				return g.Instance(sub, depth+1, valid)
			}
		}
	}
	t := ""
	switch tv := s["type"].(type) {
	case string:
		t = tv
	case []any:
		if len(tv) > 0 {
			t, _ = pick(r, tv).(string)
		}
	}
	if t == "" {
		switch {
		case s["properties"] != nil || s["required"] != nil || s["additionalProperties"] != nil || s["patternProperties"] != nil || s["dependencies"] != nil:
			t = "object"
		case s["items"] != nil:
			t = "array"
		case s["pattern"] != nil || s["minLength"] != nil || s["maxLength"] != nil:
			t = "string"
		case s["minimum"] != nil || s["maximum"] != nil || s["multipleOf"] != nil:
			t = "number"
		default:
			return g.junk(2)
		}
	}
	if pp, ok := s["patternProperties"].(M); ok && s["properties"] == nil && t == "object" && len(pp) >= 2 {
		// members whose names match several of the patterns
		o := M{}
		for _, k := range []string{"a", "ab", "c", "cc", "d", "dx"} {
			if r.Chance(450) {
				o[k] = g.junk(1)
			}
		}
		if len(o) == 0 {
			o[pick(r, []string{"a", "c", "d"})] = g.junk(1)
		}
		return o
	}
	if !valid && r.Chance(250) {
		t = pick(r, append(primTypes, "object", "array"))
	}
	switch t {
	case "integer":
		return pick(r, []any{0, 1, 2, 3, 4, 5, 6, 10, 11, -1, -3, 100})
	case "number":
		return pick(r, numSamples)
	case "string":
		return pick(r, strSamples)
	case "boolean":
		return r.Chance(500)
	case "null":
		return nil
	case "object":
		o := M{}
		if props, ok := s["properties"].(M); ok {
			keys := make([]string, 0, len(props))
			for k := range props {
				keys = append(keys, k)
			}
			sort.Strings(keys)
			for _, k := range keys {
				if r.Chance(700) {
					sub, _ := props[k].(M)
					o[k] = g.Instance(sub, depth+1, valid)
				}
			}
		}
		if req, ok := s["required"].([]any); ok && (valid || r.Chance(500)) {
			for _, k := range req {
				if ks, ok := k.(string); ok {
					if _, has := o[ks]; !has {
						o[ks] = g.junk(1)
					}
				}
			}
		}
		for i := 0; i < r.Intn(3); i++ {
			k := pick(r, propNames)
			if _, has := o[k]; !has {
				if ap, ok := s["additionalProperties"].(M); ok {
					o[k] = g.Instance(ap, depth+1, valid)
				} else {
					o[k] = g.junk(1)
				}
			}
		}
		return o
	case "array":
		n := r.Range(0, 4)
		a := make([]any, 0, n)
		for i := 0; i < n; i++ {
			switch it := s["items"].(type) {
			case M:
				a = append(a, g.Instance(it, depth+1, valid))
			case []any:
				if i < len(it) {
					sub, _ := it[i].(M)
					a = append(a, g.Instance(sub, depth+1, valid))
				} else if ai, ok := s["additionalItems"].(M); ok {
					a = append(a, g.Instance(ai, depth+1, valid))
				} else {
					a = append(a, g.junk(1))
				}
			default:
				a = append(a, g.junk(1))
			}
		}
		if r.Chance(150) && len(a) > 0 {
			a = append(a, a[0]) // duplicate: uniqueItems
		}
		return a
	}
	return g.junk(2)
}

func (g *Gen) junk(depth int) any {
	r := g.r
	k := r.Intn(8)
	if depth <= 0 && k >= 6 {
		k = r.Intn(6)
	}
	switch k {
	case 0:
		return nil
	case 1:
		return r.Chance(500)
	case 2, 3:
		return pick(r, numSamples)
	case 4, 5:
		return pick(r, strSamples)
	case 6:
		n := r.Intn(3)
		a := make([]any, 0, n)
		for i := 0; i < n; i++ {
			a = append(a, g.junk(depth-1))
		}
		return a
	default:
		o := M{}
		for i := 0; i < r.Intn(3); i++ {
			o[pick(r, propNames)] = g.junk(depth - 1)
		}
		return o
	}
}

// ---- simple schemas: parameters, headers, items ----

func (g *Gen) simple(s M, depth int, allowArray bool) {
	r := g.r
	ts := simpleTypes
	if !allowArray || depth <= 0 {
		ts = simpleTypes[:4]
	}
	t := pick(r, ts)
	s["type"] = t
	switch t {
	case "string":
		g.stringy(s, true)
	case "integer":
		g.numeric(s)
		if r.Chance(400) {
			s["format"] = pick(r, []string{"int32", "int64", "uint32", "uint64"})
		}
	case "number":
		g.numeric(s)
		if r.Chance(400) {
			s["format"] = pick(r, []string{"float", "double", "float32"})
		}
	case "array":
		if !r.Chance(60) { // now and then an array without an element type: whatever "items" a recycled validator still carries must not apply
			items := M{}
			g.simple(items, depth-1, true)
			s["items"] = items
		}
		if r.Chance(350) {
			s["minItems"] = pick(r, lens)
		}
		if r.Chance(350) {
			s["maxItems"] = pick(r, lens)
		}
		if r.Chance(300) {
			s["uniqueItems"] = true
		}
	}
	if r.Chance(200) && t != "array" {
		n := r.Range(1, 3)
		e := make([]any, 0, n)
		for i := 0; i < n; i++ {
			switch t {
			case "string":
				e = append(e, pick(r, strSamples))
			case "boolean":
				e = append(e, r.Chance(500))
			default:
				e = append(e, pick(r, []any{0, 1, 2, 3, 5, 10}))
			}
		}
		s["enum"] = e
	}
}

func (g *Gen) Param() M {
	r := g.r
	p := M{"name": pick(r, []string{"p", "q", "id", "limit", "p", "q", "id", "limit", ""}), "in": pick(r, []string{"query", "path", "header", "formData"})}
	g.simple(p, 3, true)
	if r.Chance(400) {
		p["required"] = true
	}
	if r.Chance(150) {
		p["allowEmptyValue"] = true
	}
	if r.Chance(150) {
		p["default"] = pick(r, []any{"a", 1, "", 0})
	}
	return p
}

func (g *Gen) Header() M {
	h := M{}
	g.simple(h, 3, true)
	return h
}

// TypedFor generates a typed Go value for a simple schema: usually of a matching kind, sometimes not.
func (g *Gen) TypedFor(s M, valid bool) *TypedVal {
	r := g.r
	if r.Chance(30) {
		return &TypedVal{T: "nil"}
	}
	t, _ := s["type"].(string)
	if e, ok := s["enum"].([]any); ok && len(e) > 0 && r.Chance(500) {
		// one of the allowed values (any of them, not only the first)
		v := pick(r, e)
		switch x := v.(type) {
		case string:
			return &TypedVal{T: "string", J: js(x)}
		case bool:
			return &TypedVal{T: "bool", J: js(x)}
		case int:
			return &TypedVal{T: pick(r, []string{"int", "int64", "int32", "float64"}), J: js(x)}
		}
	}
	if !valid && r.Chance(200) {
		t = pick(r, simpleTypes)
	}
	switch t {
	case "string":
		return &TypedVal{T: "string", J: js(pick(r, strSamples))}
	case "boolean":
		return &TypedVal{T: "bool", J: js(r.Chance(500))}
	case "integer":
		ty := pick(r, []string{"int", "int8", "int16", "int32", "int64", "uint", "uint8", "uint16", "uint32", "uint64", "float64", "float64", "float32"})
		if strings.HasPrefix(ty, "float") && r.Chance(700) {
			// JSON-decoded numbers arrive as floats: whole ones are integers, fractional ones are not
			return &TypedVal{T: ty, J: js(pick(r, []float64{0, 1, 2, 3, 4, 4.5, 2.5, 10, 10.5, 100, -1, -1.5}))}
		}
		v := pick(r, []int{0, 1, 2, 3, 4, 5, 6, 10, 11, 100})
		if !strings.HasPrefix(ty, "u") && r.Chance(200) {
			v = -v
		}
		return &TypedVal{T: ty, J: js(v)}
	case "number":
		ty := pick(r, []string{"float32", "float64", "float64", "int64", "int32"})
		if strings.HasPrefix(ty, "int") {
			return &TypedVal{T: ty, J: js(pick(r, []int{0, 1, 2, 3, 5, 10, -1}))}
		}
		return &TypedVal{T: ty, J: js(pick(r, []float64{0, 1, 1.5, 2, 2.5, 3, 5, 10, 10.5, 100, -2}))}
	case "array":
		items, _ := s["items"].(M)
		depth := 1
		base := "string"
		if items == nil {
			base = pick(r, []string{"string", "int64", "float64"})
		}
		cur := items
		for cur != nil {
			it, _ := cur["type"].(string)
			if it == "array" {
				depth++
				cur, _ = cur["items"].(M)
				continue
			}
			switch it {
			case "integer":
				base = pick(r, []string{"int64", "int32", "int", "uint8"})
			case "number":
				base = pick(r, []string{"float64", "float32"})
			case "boolean":
				base = "bool"
			default:
				base = "string"
			}
			break
		}
		return &TypedVal{T: strings.Repeat("[]", depth) + base, J: js(g.nested(depth, base))}
	}
	return &TypedVal{T: "string", J: js(pick(r, strSamples))}
}

func (g *Gen) nested(depth int, base string) any {
	r := g.r
	n := r.Range(0, 3)
	out := make([]any, 0, n)
	for i := 0; i < n; i++ {
		if depth > 1 {
			out = append(out, g.nested(depth-1, base))
			continue
		}
		switch {
		case base == "string":
			out = append(out, pick(r, strSamples))
		case base == "bool":
			out = append(out, r.Chance(500))
		case strings.HasPrefix(base, "float"):
			out = append(out, pick(r, []float64{0, 1, 1.5, 2, 3, 5, 10.5}))
		default:
			out = append(out, pick(r, []int{0, 1, 2, 3, 5, 10, 11}))
		}
	}
	if r.Chance(150) && len(out) > 0 {
		out = append(out, out[0])
	}
	return out
}

// ---- JSON-schema suite corpus (real schemas and instances shipped with the repository) ----

type SuitePair struct {
	File   string
	Schema string
	Data   string
	Valid  bool
}

var suiteCache []SuitePair

func repoDir() string {
	if d := os.Getenv("VERIF_REPO"); d != "" {
		return d
	}
	return "/repo"
}

// SuitePairs loads the usable (schema, instance) pairs of fixtures/jsonschema_suite: no remote references.
func SuitePairs() []SuitePair {
	if suiteCache != nil {
		return suiteCache
	}
	dirs := []string{filepath.Join(repoDir(), "fixtures/jsonschema_suite"), filepath.Join(repoDir(), "fixtures/jsonschema_suite/optional")}
	for _, d := range dirs {
		files, _ := filepath.Glob(filepath.Join(d, "*.json"))
		sort.Strings(files)
		for _, f := range files {
			if strings.Contains(f, "refRemote") {
				continue
			}
			b, err := os.ReadFile(f)
			if err != nil {
				continue
			}
			var groups []struct {
				Schema json.RawMessage `json:"schema"`
				Tests  []struct {
					Data  json.RawMessage `json:"data"`
					Valid bool            `json:"valid"`
				} `json:"tests"`
			}
			if json.Unmarshal(b, &groups) != nil {
				continue
			}
			for _, g := range groups {
				sc := compactJSON(g.Schema)
				if strings.Contains(sc, "http://") || strings.Contains(sc, "https://") {
					continue
				}
				for _, t := range g.Tests {
					suiteCache = append(suiteCache, SuitePair{File: filepath.Base(f), Schema: sc, Data: compactJSON(t.Data), Valid: t.Valid})
				}
			}
		}
	}
	return suiteCache
}
