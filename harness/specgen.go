package main

import (
	"encoding/json"
	"fmt"
	"os"
	"path/filepath"
	"sort"
	"strings"
	"sync"

	"github.com/go-openapi/loads"
	"github.com/go-openapi/swag"
	yaml "gopkg.in/yaml.v3"
)

// ---- mini Swagger 2.0 specifications: a grammar of well-formed parts plus rule-breaking edits ----

var defNames = []string{"A", "B", "C", "D", "E"}

func simpleProp(r *Rand) M {
	switch r.Intn(9) {
	case 6: // a formatted string with a default: the default walker consults the format registry
		return M{"type": "string", "format": "date", "default": pick(r, []any{"2020-01-01", "2020-01-01", "nope"})}
	case 7: // ... with an example
		return M{"type": "string", "format": pick(r, []string{"email", "uuid", "date-time"}), "example": pick(r, []any{"a@b.co", "nope"})}
	case 8:
		return M{"type": "array", "items": M{"type": "string", "format": "ipv4"}, "default": []any{pick(r, []any{"127.0.0.1", "nope"})}}
	case 0:
		return M{"type": "integer", "format": "int64"}
	case 1:
		return M{"type": "string"}
	case 2:
		return M{"type": "string", "format": "date"}
	case 3:
		return M{"type": "array", "items": M{"type": "string"}}
	case 4:
		return M{"type": "number", "minimum": 0}
	default:
		return M{"type": "boolean"}
	}
}

// GenDeepSpec: a small specification dominated by deeply nested definitions (a chain of object properties, 34..40 levels,
// a default at every level): most of its validation is spent deep inside the default / example walkers.
func GenDeepSpec(r *Rand) M {
	chain := func(depth int, tag string) M {
		cur := M{"type": "object", "properties": M{
			"arr": M{"type": "array", "uniqueItems": true, "items": M{"type": "integer"}, "default": pick(r, []any{[]any{1, 2}, []any{1, 1}})},
			"ex":  M{"type": "integer", "example": pick(r, []any{1, "notanint"})},
		}}
		for i := depth; i > 0; i-- {
			cur = M{"type": "object", "properties": M{
				fmt.Sprintf("%s%d", tag, i):  cur,
				fmt.Sprintf("d%s%d", tag, i): M{"type": "integer", "default": pick(r, []any{1, 2, "bad"})},
			}}
		}
		return cur
	}
	defs := M{}
	var names []string
	for i := 0; i < 1; i++ {
		n := fmt.Sprintf("Deep%d", i)
		defs[n] = chain(r.Range(34, 40), fmt.Sprintf("k%d_", i))
		names = append(names, n)
	}
	return M{
		"swagger": "2.0", "info": M{"title": "deep", "version": "1.0"},
		"paths": M{"/deep": M{"post": M{"operationId": "deep",
			"parameters": []any{M{"name": "body", "in": "body", "required": true, "schema": M{"$ref": "#/definitions/" + pick(r, names)}}},
			"responses":  M{"200": M{"description": "ok", "schema": M{"$ref": "#/definitions/" + pick(r, names)}}}}}},
		"definitions": defs,
	}
}

// deepDocsPM: per-mille of generated specifications that carry a deeply nested definition (set by the workloads).
var deepDocsPM = 30

// GenSpec builds a mini specification. edits = number of rule-breaking edits applied (0 = valid by construction).
func GenSpec(r *Rand, edits int) (M, []string) {
	nd := r.Range(2, 4)
	names := append([]string(nil), defNames[:nd]...)
	if r.Chance(150) {
		// definition names that look like schema keywords: paths such as definitions.items / x.properties.default
		names[len(names)-1] = pick(r, []string{"items", "properties", "default", "example"})
	}
	defs := M{}
	for i, n := range names {
		d := M{"type": "object"}
		props := M{}
		for k := 0; k < r.Range(1, 3); k++ {
			props[fmt.Sprintf("p%d%s", k+1, strings.ToLower(n))] = simpleProp(r)
		}
		props["id"+n] = M{"type": "integer", "format": "int64"}
		if i > 0 && r.Chance(600) {
			// allOf inheritance from an earlier definition
			parent := names[r.Intn(i)]
			defs[n] = M{"allOf": []any{M{"$ref": "#/definitions/" + parent}, M{"type": "object", "properties": props}}}
			continue
		}
		d["properties"] = props
		if r.Chance(500) {
			d["required"] = []any{"id" + n}
		}
		defs[n] = d
	}
	if deepDocsPM > 0 && r.Chance(deepDocsPM) {
		// a deeply nested definition (a chain of object properties, 33..70 levels, defaults and an example at the bottom):
		// limits and counters on nesting depth are typically 32 or 64
		depth := pick(r, []int{33, 40, 48, 70})
		leaf := M{"type": "object", "properties": M{
			"arr": M{"type": "array", "uniqueItems": true, "items": M{"type": "integer"}, "default": pick(r, []any{[]any{1, 2}, []any{1, 1}})},
			"ex":  M{"type": "integer", "example": pick(r, []any{1, "notanint"})},
		}}
		cur := leaf
		for i := depth; i > 0; i-- {
			// a different member name at every level: the validator's path-based cycle heuristic stops at "x.n.n"
			cur = M{"type": "object", "properties": M{fmt.Sprintf("k%d", i): cur}}
		}
		defs["Deep"] = cur
		names = append(names, "Deep")
	}
	refDef := func() M { return M{"$ref": "#/definitions/" + pick(r, names)} }

	params := M{
		"limitParam": M{"name": "limit", "in": "query", "type": "integer", "format": "int32", "default": 10},
	}
	responses := M{
		"Err": M{"description": "error", "schema": refDef()},
	}
	paths := M{}
	pathTemplates := []string{"/items", "/items/{id}", "/things/{tid}/sub", "/other"}
	np := r.Range(1, 3)
	opn := 0
	usedLimit, usedErr := false, false
	for i := 0; i < np; i++ {
		pt := pathTemplates[(i+r.Intn(2))%len(pathTemplates)]
		if _, dup := paths[pt]; dup {
			continue
		}
		item := M{}
		methods := []string{"get", "post", "put", "delete"}
		nm := r.Range(1, 2)
		for k := 0; k < nm; k++ {
			m := methods[(k+r.Intn(2))%len(methods)]
			if _, dup := item[m]; dup {
				continue
			}
			opn++
			op := M{"operationId": fmt.Sprintf("op%d", opn)}
			var ps []any
			for _, seg := range strings.Split(pt, "/") {
				if strings.HasPrefix(seg, "{") {
					ps = append(ps, M{"name": strings.Trim(seg, "{}"), "in": "path", "required": true, "type": pick(r, []string{"string", "integer"})})
				}
			}
			if r.Chance(500) {
				q := M{"name": pick(r, []string{"q", "filter"}), "in": "query"}
				(&Gen{r: r}).simpleNoBadPattern(q)
				ps = append(ps, q)
			}
			if r.Chance(250) {
				ps = append(ps, M{"name": "since", "in": "query", "type": "string", "format": "date", "default": pick(r, []any{"2020-01-01", "nope"})})
			}
			if r.Chance(300) {
				ps = append(ps, M{"$ref": "#/parameters/limitParam"})
				usedLimit = true
			}
			if r.Chance(100) {
				// a collection of collections (items.items), optionally with defaults at each level
				inner := M{"type": "array", "items": M{"type": pick(r, []string{"integer", "string"})}}
				m := M{"name": "matrix", "in": "query", "type": "array", "items": inner}
				if r.Chance(400) {
					m["default"] = []any{[]any{1, 2}}
				}
				ps = append(ps, m)
			}
			if (m == "post" || m == "put") && r.Chance(700) {
				if r.Chance(750) {
					ps = append(ps, M{"name": "body", "in": "body", "required": true, "schema": refDef()})
				} else {
					ps = append(ps, M{"name": "f", "in": "formData", "type": "string"})
					op["consumes"] = []any{"application/x-www-form-urlencoded"}
				}
			}
			if len(ps) > 0 {
				op["parameters"] = ps
			}
			ok := M{"description": "ok"}
			switch r.Intn(4) {
			case 0:
				ok["schema"] = refDef()
			case 1:
				ok["schema"] = M{"type": "array", "items": refDef()}
			case 2:
				ok["schema"] = M{"type": "object", "properties": M{"n": M{"type": "integer", "default": 1}, "s": M{"type": "string", "example": "x"}}}
			}
			if r.Chance(300) {
				ok["headers"] = M{"X-Rate": M{"type": "integer", "default": 5}}
				if r.Chance(400) {
					ok["headers"].(M)["X-When"] = M{"type": "string", "format": "date-time", "default": pick(r, []any{"2020-01-01T10:00:00Z", "nope"})}
				}
				if r.Chance(300) {
					ok["headers"].(M)["X-Matrix"] = M{"type": "array", "items": M{"type": "array", "items": M{"type": "integer"}}}
				}
			}
			resp := M{"200": ok}
			if r.Chance(400) {
				resp["default"] = M{"$ref": "#/responses/Err"}
				usedErr = true
			}
			op["responses"] = resp
			item[m] = op
		}
		paths[pt] = item
	}
	doc := M{
		"swagger":     "2.0",
		"info":        M{"title": "mini", "version": "1.0"},
		"paths":       paths,
		"definitions": defs,
	}
	if usedLimit || r.Chance(300) {
		doc["parameters"] = params
	}
	if usedErr || r.Chance(300) {
		doc["responses"] = responses
	}
	var applied []string
	last := -1
	for i := 0; i < edits; i++ {
		// several edits of the same kind on different targets are what makes order dependence visible
		kind := r.Intn(nEditKinds)
		if r.Chance(400) {
			kind = nEditKinds + r.Intn(nEditKinds2) // the rarer rules of the specification validator
		}
		if last >= 0 && r.Chance(450) {
			kind = last
		}
		last = kind
		if e := applyEdit(r, doc, kind); e != "" {
			applied = append(applied, e)
		}
	}
	return doc, applied
}

// GenSpecSameRule: an otherwise regular document with two to four offenders of ONE rule. When validation stops at the
// first error, which offender gets reported is exactly what must not depend on map order, member order or history;
// unrelated errors (which stop the validation earlier) would hide it.
func GenSpecSameRule(r *Rand) (M, []string) {
	doc, _ := GenSpec(r, 0)
	kind := r.Intn(nEditKinds + nEditKinds2)
	var applied []string
	for i, n := 0, r.Range(2, 4); i < n; i++ {
		if e := applyEdit(r, doc, kind); e != "" {
			applied = append(applied, e)
		}
	}
	return doc, applied
}

// warning-only edits: conditions the specification validator reports as warnings, never as errors. Applying them to a
// document must leave its error set and verdict unchanged ("warnings alone never make a document invalid").
const nWarnEdits = 7

func applyWarnEdit(r *Rand, doc M, kind int) string {
	defs, _ := doc["definitions"].(M)
	paths, _ := doc["paths"].(M)
	var plain []string
	for _, n := range sortedKeys(defs) {
		if d, ok := defs[n].(M); ok && d["properties"] != nil {
			plain = append(plain, n)
		}
	}
	anyOp := func() M {
		pn := sortedKeys(paths)
		if len(pn) == 0 {
			return nil
		}
		item, _ := paths[pick(r, pn)].(M)
		ms := sortedKeys(item)
		if len(ms) == 0 {
			return nil
		}
		op, _ := item[pick(r, ms)].(M)
		return op
	}
	sfx := fmt.Sprint(r.Intn(3))
	switch kind {
	case 0: // example its schema rejects
		if len(plain) > 0 {
			n := pick(r, plain)
			defs[n].(M)["properties"].(M)["wex"+n] = M{"type": "integer", "example": "notanint"}
			return "w-bad-example:" + n
		}
	case 1: // required and readOnly, declared among the properties
		if len(plain) > 0 {
			n := pick(r, plain)
			d := defs[n].(M)
			if d["properties"].(M)["wro"+n] != nil {
				return "" // already there: listing it twice in "required" would be an error of its own
			}
			d["properties"].(M)["wro"+n] = M{"type": "string", "readOnly": true}
			req, _ := d["required"].([]any)
			d["required"] = append(req, "wro"+n)
			return "w-readonly-required:" + n
		}
	case 2: // required and readOnly, declared by the schema given as additionalProperties (one or two levels down)
		if len(plain) > 0 {
			n := pick(r, plain)
			d := defs[n].(M)
			if d["additionalProperties"] == nil {
				inner := M{"type": "object", "properties": M{"wap" + n: M{"type": "string", "readOnly": true}}}
				if r.Chance(300) {
					inner = M{"type": "object", "additionalProperties": inner}
				}
				d["additionalProperties"] = inner
				req, _ := d["required"].([]any)
				d["required"] = append(req, "wap"+n)
				return "w-readonly-required-additional:" + n
			}
		}
	case 3: // example the inline schema of a response rejects
		if op := anyOp(); op != nil {
			if resp, ok := op["responses"].(M); ok {
				if one, ok := resp["200"].(M); ok && one["schema"] == nil && one["$ref"] == nil {
					one["schema"] = M{"type": "object", "properties": M{"wn": M{"type": "integer"}}}
					one["examples"] = M{"application/json": M{"wn": "bad" + sfx}}
					return "w-bad-response-example"
				}
			}
		}
	case 4: // required parameter with a default
		if op := anyOp(); op != nil {
			// only next to parameters that are there already (a missing or null list is the document's own business), once
			if ps, _ := op["parameters"].([]any); len(ps) > 0 && !strings.Contains(js(ps), `"wrq`) {
				op["parameters"] = append(ps, M{"name": "wrq" + sfx, "in": "query", "type": "string", "required": true, "default": "x"})
				return "w-required-has-default"
			}
		}
	case 5: // an unused definition / shared parameter / shared response
		switch r.Intn(3) {
		case 0:
			defs["WUnused"+sfx] = M{"type": "object", "properties": M{"u": M{"type": "string"}}}
		case 1:
			ps, _ := doc["parameters"].(M)
			if ps == nil {
				ps = M{}
				doc["parameters"] = ps
			}
			ps["wunused"+sfx] = M{"name": "wu" + sfx, "in": "query", "type": "string"}
		default:
			rs, _ := doc["responses"].(M)
			if rs == nil {
				rs = M{}
				doc["responses"] = rs
			}
			rs["WUnused"+sfx] = M{"description": "unused"}
		}
		return "w-unused"
	case 6: // examples for a media type other than application/json
		if op := anyOp(); op != nil {
			if resp, ok := op["responses"].(M); ok {
				if one, ok := resp["200"].(M); ok && one["examples"] == nil && one["$ref"] == nil {
					if one["schema"] == nil {
						one["schema"] = M{"type": "string"}
					}
					one["examples"] = M{"text/plain": "x"}
					return "w-examples-mime"
				}
			}
		}
	}
	return ""
}

// GenSpecTwin builds a document and its twin: the same document plus 1..3 warning-only conditions.
func GenSpecTwin(r *Rand, edits int) (base M, withWarnings M) {
	base, _ = GenSpec(r, edits)
	var cp M
	_ = json.Unmarshal([]byte(js(base)), &cp)
	n := 0
	for i := 0; i < 6 && n < r.Range(1, 3); i++ {
		if applyWarnEdit(r, cp, r.Intn(nWarnEdits)) != "" {
			n++
		}
	}
	if n == 0 {
		return base, nil
	}
	return base, cp
}

// simpleNoBadPattern: a simple schema for a query parameter without invalid regular expressions
func (g *Gen) simpleNoBadPattern(s M) {
	g.simple(s, 2, true)
	var fix func(m M)
	fix = func(m M) {
		if p, ok := m["pattern"].(string); ok && p == "(" {
			m["pattern"] = "^a"
		}
		if it, ok := m["items"].(M); ok {
			fix(it)
		}
	}
	fix(s)
}

func sortedKeys(m M) []string {
	ks := make([]string, 0, len(m))
	for k := range m {
		ks = append(ks, k)
	}
	sort.Strings(ks)
	return ks
}

// applyEdit breaks one documented rule (or adds a warning-only condition). Several edits of the same kind on different
// targets are what makes order dependence visible.
const nEditKinds = 20

func applyEdit(r *Rand, doc M, kind int) string {
	defs, _ := doc["definitions"].(M)
	paths, _ := doc["paths"].(M)
	dn := sortedKeys(defs)
	pn := sortedKeys(paths)
	anyOp := func() (string, string, M) {
		if len(pn) == 0 {
			return "", "", nil
		}
		p := pick(r, pn)
		item := paths[p].(M)
		ms := sortedKeys(item)
		if len(ms) == 0 {
			return "", "", nil
		}
		m := pick(r, ms)
		op, _ := item[m].(M)
		return p, m, op
	}
	plainDef := func() (string, M) {
		// a definition with direct properties
		var c []string
		for _, n := range dn {
			if d, ok := defs[n].(M); ok && d["properties"] != nil {
				c = append(c, n)
			}
		}
		if len(c) == 0 {
			return "", nil
		}
		n := pick(r, c)
		return n, defs[n].(M)
	}
	switch kind {
	case 0, 1: // required property that is not defined
		// (on a definition that does not have one yet: listing a name twice in "required" is a schema error of its
		// own, which stops the validation before the rule runs; several offending definitions are the interesting case)
		for try := 0; try < 4; try++ {
			n, d := plainDef()
			if d == nil {
				break
			}
			req, _ := d["required"].([]any)
			dup := false
			for _, q := range req {
				dup = dup || q == "nope"+n
			}
			if dup {
				continue
			}
			d["required"] = append(req, "nope"+n)
			return "required-undefined:" + n
		}
	case 2: // duplicate operation ids: one or two distinct ids, each used twice
		mk := func(id string) M {
			return M{"get": M{"operationId": id, "responses": M{"200": M{"description": "ok"}}}}
		}
		sfx := fmt.Sprint(r.Intn(3))
		paths["/dupa1"+sfx], paths["/dupa2"+sfx] = mk("dupA"+sfx), mk("dupA"+sfx)
		if r.Chance(600) {
			paths["/dupb1"+sfx], paths["/dupb2"+sfx] = mk("dupB"+sfx), mk("dupB"+sfx)
		}
		return "dup-opid"
	case 3: // path parameter not declared
		for _, p := range pn {
			if strings.Contains(p, "{") {
				item := paths[p].(M)
				for _, m := range sortedKeys(item) {
					op := item[m].(M)
					var keep []any
					if ps, ok := op["parameters"].([]any); ok {
						for _, q := range ps {
							if qm, ok := q.(M); ok && qm["in"] == "path" {
								continue
							}
							keep = append(keep, q)
						}
					}
					op["parameters"] = keep
				}
				return "path-param-undeclared:" + p
			}
		}
	case 4: // path parameter not required
		for _, p := range pn {
			if strings.Contains(p, "{") {
				item := paths[p].(M)
				for _, m := range sortedKeys(item) {
					if ps, ok := item[m].(M)["parameters"].([]any); ok {
						for _, q := range ps {
							if qm, ok := q.(M); ok && qm["in"] == "path" {
								delete(qm, "required")
							}
						}
					}
				}
				return "path-param-not-required:" + p
			}
		}
	case 5: // duplicate parameter
		if _, _, op := anyOp(); op != nil {
			ps, _ := op["parameters"].([]any)
			op["parameters"] = append(ps, M{"name": "dup", "in": "query", "type": "string"}, M{"name": "dup", "in": "query", "type": "integer"})
			return "dup-param"
		}
	case 6: // two body parameters / body and formData
		if _, _, op := anyOp(); op != nil {
			ps, _ := op["parameters"].([]any)
			if r.Chance(500) {
				op["parameters"] = append(ps, M{"name": "b1", "in": "body", "schema": M{"type": "string"}}, M{"name": "b2", "in": "body", "schema": M{"type": "string"}})
				return "two-bodies"
			}
			op["parameters"] = append(ps, M{"name": "b1", "in": "body", "schema": M{"type": "string"}}, M{"name": "f1", "in": "formData", "type": "string"})
			return "body-and-form"
		}
	case 7: // array without items
		if n, d := plainDef(); d != nil {
			d["properties"].(M)["arr"+n] = M{"type": "array"}
			return "array-no-items:" + n
		}
	case 8: // unresolved reference
		if n, d := plainDef(); d != nil {
			d["properties"].(M)["ref"+n] = M{"$ref": "#/definitions/Missing" + n}
			return "unresolved-ref:" + n
		}
	case 9, 10: // duplicate inherited properties
		var parents []string
		for _, n := range dn {
			if d, ok := defs[n].(M); ok && d["properties"] != nil {
				parents = append(parents, n)
			}
		}
		if len(parents) > 0 {
			p := pick(r, parents)
			pp := defs[p].(M)["properties"].(M)
			// (the offending definition sorts after or before the regular ones: rules walk definitions in sorted order)
			child := pick(r, []string{"Z", "Z", "0"}) + p + fmt.Sprint(r.Intn(3))
			cp := M{}
			for i, k := range sortedKeys(pp) {
				if i < 3 {
					cp[k] = M{"type": "string"}
				}
			}
			defs[child] = M{"allOf": []any{M{"$ref": "#/definitions/" + p}, M{"type": "object", "properties": cp}}}
			return "dup-props:" + child
		}
	case 11: // circular ancestry
		sfx := fmt.Sprint(r.Intn(3))
		pre := pick(r, []string{"Y", "Y", "1"})
		a, b := pre+"1"+sfx, pre+"2"+sfx
		defs[a] = M{"allOf": []any{M{"$ref": "#/definitions/" + b}, M{"type": "object", "properties": M{"ya": M{"type": "string"}}}}}
		defs[b] = M{"allOf": []any{M{"$ref": "#/definitions/" + a}, M{"type": "object", "properties": M{"yb": M{"type": "string"}}}}}
		return "circular"
	case 12: // overlapping paths
		paths["/ov/{x}"] = M{"get": M{"operationId": "ovx", "parameters": []any{M{"name": "x", "in": "path", "required": true, "type": "string"}}, "responses": M{"200": M{"description": "ok"}}}}
		paths["/ov/{y}"] = M{"get": M{"operationId": "ovy", "parameters": []any{M{"name": "y", "in": "path", "required": true, "type": "string"}}, "responses": M{"200": M{"description": "ok"}}}}
		if r.Chance(500) {
			paths["/ov/{z}"] = M{"get": M{"operationId": "ovz", "parameters": []any{M{"name": "z", "in": "path", "required": true, "type": "string"}}, "responses": M{"200": M{"description": "ok"}}}}
		}
		return "overlap"
	case 13: // invalid pattern in a parameter (a new query parameter, or one the operation already has, e.g. its path parameter)
		if _, _, op := anyOp(); op != nil {
			ps, _ := op["parameters"].([]any)
			if r.Chance(400) {
				for _, q := range ps {
					if qm, ok := q.(M); ok && qm["type"] == "string" && qm["$ref"] == nil {
						qm["pattern"] = "("
						return "bad-pattern-existing"
					}
				}
			}
			op["parameters"] = append(ps, M{"name": "pat" + fmt.Sprint(r.Intn(3)), "in": "query", "type": "string", "pattern": "("})
			return "bad-pattern"
		}
	case 14: // default that its schema rejects
		if n, d := plainDef(); d != nil {
			d["properties"].(M)["bad"+n] = M{"type": "integer", "default": "notanint"}
			return "bad-default:" + n
		}
	case 15: // example that its schema rejects (warning)
		if n, d := plainDef(); d != nil {
			d["properties"].(M)["ex"+n] = M{"type": "integer", "example": "notanint"}
			return "bad-example:" + n
		}
	case 16: // readOnly and required (warning)
		if n, d := plainDef(); d != nil && d["properties"].(M)["ro"+n] == nil {
			d["properties"].(M)["ro"+n] = M{"type": "string", "readOnly": true}
			req, _ := d["required"].([]any)
			d["required"] = append(req, "ro"+n)
			return "readonly-required:" + n
		}
	case 18, 19: // a default (18) / an example (19) that the inline schema of a response rejects, in one or two operations
		n := 0
		for k := 0; k < r.Range(1, 2); k++ {
			_, _, op := anyOp()
			if op == nil {
				continue
			}
			resp, _ := op["responses"].(M)
			ok, _ := resp["200"].(M)
			if ok == nil {
				continue
			}
			if kind == 18 {
				ok["schema"] = M{"type": "object", "properties": M{"n": M{"type": "integer", "default": "bad" + fmt.Sprint(r.Intn(2))}}}
			} else {
				ok["schema"] = M{"type": "object", "properties": M{"n": M{"type": "integer"}}}
				ok["examples"] = M{"application/json": M{"n": "bad" + fmt.Sprint(r.Intn(2))}}
			}
			if r.Chance(600) {
				delete(op, "parameters")
				delete(ok, "headers")
			}
			n++
		}
		if n > 0 {
			if kind == 18 {
				return "bad-response-default"
			}
			return "bad-response-example"
		}
	case 17: // schema-level violation of the Swagger meta-schema
		if _, _, op := anyOp(); op != nil {
			op["bogusKey"+fmt.Sprint(r.Intn(2))] = 1
			return "meta-schema"
		}
	default:
		return applyEdit2(r, doc, kind-nEditKinds, anyOp, plainDef)
	}
	return ""
}

// applyEdit2: the rarer rules (one offender per call; the caller repeats kinds so that several offenders of one rule
// meet in one document, which is what makes order-dependent early exits and message texts visible).
const nEditKinds2 = 22

func applyEdit2(r *Rand, doc M, kind int, anyOp func() (string, string, M), plainDef func() (string, M)) string {
	paths, _ := doc["paths"].(M)
	sfx := fmt.Sprint(r.Intn(3))
	okResp := func() M { return M{"200": M{"description": "ok"}} }
	addParam := func(p M) bool {
		_, _, op := anyOp()
		if op == nil {
			return false
		}
		ps, _ := op["parameters"].([]any)
		op["parameters"] = append(ps, p)
		return true
	}
	okOf := func() M {
		_, _, op := anyOp()
		if op == nil {
			return nil
		}
		resp, _ := op["responses"].(M)
		if resp == nil {
			return nil
		}
		// any inline status-code response of the operation; now and then a new one (several responses per operation, of
		// which only some break a rule)
		code := pick(r, []string{"200", "200", "201", "404"})
		one, _ := resp[code].(M)
		if one == nil && code != "200" {
			one = M{"description": "r" + code}
			resp[code] = one
		}
		return one
	}
	addHeader := func(name string, h M) bool {
		ok := okOf()
		if ok == nil {
			return false
		}
		hs, _ := ok["headers"].(M)
		if hs == nil {
			hs = M{}
			ok["headers"] = hs
		}
		hs[name] = h
		return true
	}
	switch kind {
	case 0: // array parameter without items
		if addParam(M{"name": "arrp" + sfx, "in": "query", "type": "array"}) {
			return "param-array-no-items"
		}
	case 1: // array header without items
		if addHeader("X-Arr"+sfx, M{"type": "array"}) {
			return "header-array-no-items"
		}
	case 2: // empty path parameter
		paths["/e"+sfx+"/{}"] = M{"get": M{"operationId": "empty" + sfx, "responses": okResp()}}
		return "empty-path-param"
	case 3: // path parameter declared but absent from the path
		if addParam(M{"name": "ghost" + sfx, "in": "path", "required": true, "type": "string"}) {
			return "path-param-not-in-path"
		}
	case 4: // the same path parameter twice in one path
		paths["/u"+sfx+"/{id}/v/{id}"] = M{"get": M{"operationId": "uniq" + sfx, "parameters": []any{M{"name": "id", "in": "path", "required": true, "type": "string"}}, "responses": okResp()}}
		return "path-param-not-unique"
	case 5: // garbled path parameter (warning)
		paths["/g"+sfx+"/{a b}"] = M{"get": M{"operationId": "garbled" + sfx, "parameters": []any{M{"name": "a b", "in": "path", "required": true, "type": "string"}}, "responses": okResp()}}
		return "path-param-garbled"
	case 6: // operation without any response
		paths["/nr"+sfx] = M{"get": M{"operationId": "noresp" + sfx, "responses": M{}}}
		return "no-valid-response"
	case 7: // no path at all (warning)
		for _, k := range sortedKeys(paths) {
			delete(paths, k)
		}
		return "no-path"
	case 8: // validation keywords that do not match the parameter's type (warning)
		if r.Chance(500) {
			if addParam(M{"name": "mm" + sfx, "in": "query", "type": "string", "minimum": 1}) {
				return "param-keyword-mismatch"
			}
		} else if addParam(M{"name": "mm" + sfx, "in": "query", "type": "integer", "maxLength": 3}) {
			return "param-keyword-mismatch"
		}
	case 9: // $ref with siblings: a description, a default or an example next to the reference, as a property, an allOf member or a tuple item
		if n, d := plainDef(); d != nil {
			defs, _ := doc["definitions"].(M)
			sib := pick(r, []M{{"description": "sibling"}, {"default": M{}}, {"default": "null"}, {"example": M{"x": 1}}, {"default": M{"id" + n: "bad"}}})
			ref := M{"$ref": "#/definitions/" + n}
			for k, v := range sib {
				ref[k] = v
			}
			switch r.Intn(3) {
			case 0:
				// as a property of ANOTHER definition where there is one: a property referring to its own definition makes the
				// document circular, and circular documents with defaults / examples fall under known finding #10
				host := d
				for _, o := range sortedKeys(defs) {
					if od, ok := defs[o].(M); ok && o != n && od["properties"] != nil && od["allOf"] == nil && r.Chance(500) {
						host = od
						break
					}
				}
				host["properties"].(M)["sib"+n] = ref
			case 1:
				defs["W"+n+sfx] = M{"allOf": []any{ref, M{"type": "object", "properties": M{"w": M{"type": "string"}}}}}
			default:
				defs["T"+n+sfx] = M{"type": "array", "items": []any{ref, M{"type": "string"}}}
			}
			return "ref-siblings:" + n
		}
	case 10: // required parameter with a default (warning)
		if addParam(M{"name": "rq" + sfx, "in": "query", "type": "string", "required": true, "default": "x"}) {
			return "required-has-default"
		}
	case 11: // examples without schema / for an unsupported media type (warnings)
		if ok := okOf(); ok != nil {
			if r.Chance(500) {
				delete(ok, "schema")
				ok["examples"] = M{"application/json": M{"n": 1}}
				return "examples-without-schema"
			}
			ok["schema"] = M{"type": "string"}
			ok["examples"] = M{"text/plain": "x"}
			return "examples-mime"
		}
	case 12: // response header with a bad default, a bad pattern, or items with a bad default
		h := pick(r, []M{
			{"type": "integer", "default": "bad" + sfx},
			{"type": "string", "pattern": "(", "default": "x"},
			{"type": "array", "items": M{"type": "integer", "default": "bad" + sfx}},
			{"type": "array", "items": M{"type": "string", "pattern": "("}},
		})
		if addHeader("X-Bad"+sfx, h) {
			return "bad-header"
		}
	case 13: // parameter whose items carry a bad default / a bad pattern
		if r.Chance(500) {
			if addParam(M{"name": "pi" + sfx, "in": "query", "type": "array", "items": M{"type": "integer", "default": "bad"}}) {
				return "bad-param-items-default"
			}
		} else if addParam(M{"name": "pp" + sfx, "in": "query", "type": "array", "items": M{"type": "string", "pattern": "("}}) {
			return "bad-param-items-pattern"
		}
	case 14: // unresolvable parameter reference
		if addParam(M{"$ref": "#/parameters/missingP" + sfx}) {
			return "unresolved-param-ref"
		}
	case 15: // unresolvable response reference
		if _, _, op := anyOp(); op != nil {
			if resp, ok := op["responses"].(M); ok {
				resp["404"] = M{"$ref": "#/responses/missingR" + sfx}
				return "unresolved-response-ref"
			}
		}
	case 16: // invalid pattern in a schema property
		if n, d := plainDef(); d != nil {
			d["properties"].(M)["pat"+n] = M{"type": "string", "pattern": "("}
			return "bad-schema-pattern:" + n
		}
	case 17: // parameter with a default its simple schema rejects
		if addParam(M{"name": "bd" + sfx, "in": "query", "type": "integer", "default": "bad" + sfx}) {
			return "bad-param-default"
		}
	case 19: // response schema that is an array without items, or whose items carry a pattern that does not compile
		if ok := okOf(); ok != nil {
			if r.Chance(500) {
				ok["schema"] = M{"type": "array"}
				return "response-array-no-items"
			}
			ok["schema"] = M{"type": "array", "items": M{"type": "string", "pattern": "("}}
			return "response-items-bad-pattern"
		}
	case 20: // a declared path parameter whose pattern does not compile
		for _, p := range sortedKeys(paths) {
			item, _ := paths[p].(M)
			for _, m := range sortedKeys(item) {
				op, _ := item[m].(M)
				ps, _ := op["parameters"].([]any)
				for _, q := range ps {
					if qm, ok := q.(M); ok && qm["in"] == "path" && qm["pattern"] == nil && r.Chance(600) {
						qm["type"] = "string"
						qm["pattern"] = "("
						return "bad-path-param-pattern"
					}
				}
			}
		}
	case 21: // a $ref that points INSIDE a definition whose name extends another definition's name (Pet / PetStore)
		if n, d := plainDef(); d != nil {
			defs, _ := doc["definitions"].(M)
			long := n + pick(r, []string{"x", "Store", "s"})
			props := M{"inner" + sfx: M{"type": "string"}, "id" + long: M{"type": "integer", "format": "int64"}}
			defs[long] = M{"type": "object", "properties": props}
			// the pointer is used from the shorter-named definition, or from a third one
			user := d
			if others := sortedKeys(defs); len(others) > 2 && r.Chance(500) {
				if o, ok := defs[pick(r, others)].(M); ok && o["properties"] != nil {
					user = o
				}
			}
			if up, ok := user["properties"].(M); ok {
				up["ptr"+sfx] = M{"$ref": "#/definitions/" + long + "/properties/inner" + sfx}
				return "deep-pointer-ref:" + long
			}
		}
	case 18: // a parameter in the shared #/parameters section that is broken (bad default) and used by an operation
		ps, _ := doc["parameters"].(M)
		if ps == nil {
			ps = M{}
			doc["parameters"] = ps
		}
		ps["shared"+sfx] = M{"name": "sh" + sfx, "in": "query", "type": "integer", "default": "bad"}
		if addParam(M{"$ref": "#/parameters/shared" + sfx}) {
			return "bad-shared-param"
		}
	}
	return ""
}

// ---- corpus ----

type corpusDoc struct {
	ID   string
	JSON []byte
}

var (
	corpusOnce sync.Once
	corpus     map[string][]byte
	corpusIDs  []string
	fixtureIDs []string
)

func loadFixtureCorpus() {
	corpus = map[string][]byte{}
	dirs := []string{"fixtures/validation", "fixtures/validation/default", "fixtures/validation/example", "fixtures/bugs"}
	for _, d := range dirs {
		entries, _ := os.ReadDir(filepath.Join(repoDir(), d))
		for _, e := range entries {
			if e.IsDir() {
				continue
			}
			name := e.Name()
			ext := filepath.Ext(name)
			if ext != ".json" && ext != ".yaml" && ext != ".yml" {
				continue
			}
			if strings.Contains(name, "donotload") || name == "expected_messages.yaml" {
				continue
			}
			info, err := e.Info()
			limit := int64(12 * 1024)
			if deep() {
				limit = 64 * 1024
			}
			if err != nil || info.Size() > limit {
				continue
			}
			b, err := os.ReadFile(filepath.Join(repoDir(), d, name))
			if err != nil {
				continue
			}
			if ext != ".json" {
				j, err := yamlToJSON(b)
				if err != nil {
					continue
				}
				b = j
			}
			var probe map[string]any
			if json.Unmarshal(b, &probe) != nil || probe["swagger"] == nil {
				continue
			}
			// external references would need the file system / network: outside every quantifier
			if strings.Contains(string(b), `"$ref":"`) || strings.Contains(string(b), `"$ref": "`) {
				bad := false
				for _, part := range strings.Split(string(b), `"$ref"`)[1:] {
					q := strings.Index(part, `"`)
					if q < 0 {
						continue
					}
					rest := part[q+1:]
					if !strings.HasPrefix(rest, "#") {
						bad = true
						break
					}
				}
				if bad {
					continue
				}
			}
			// only documents that load are in any quantifier
			if _, err := loads.Analyzed(json.RawMessage(b), ""); err != nil {
				continue
			}
			id := "@fx:" + d[len("fixtures/"):] + "/" + name
			corpus[id] = []byte(compactJSON(b))
			fixtureIDs = append(fixtureIDs, id)
		}
	}
	sort.Strings(fixtureIDs)
}

// docBytes returns the JSON bytes of a document: "@fx:<path under fixtures/>" is read from the repository (whatever the
// tier: replay files and child processes must find every document), anything else is inline JSON.
func docBytes(doc string) ([]byte, error) {
	if strings.HasPrefix(doc, "@fx:") {
		corpusMu.Lock()
		defer corpusMu.Unlock()
		if b, ok := corpusLazy[doc]; ok {
			return b, nil
		}
		path := filepath.Join(repoDir(), "fixtures", strings.TrimPrefix(doc, "@fx:"))
		b, err := os.ReadFile(path)
		if err != nil {
			return nil, fmt.Errorf("no corpus document %q: %v", doc, err)
		}
		if ext := filepath.Ext(path); ext != ".json" {
			if b, err = yamlToJSON(b); err != nil {
				return nil, fmt.Errorf("corpus document %q: %v", doc, err)
			}
		}
		b = []byte(compactJSON(b))
		if corpusLazy == nil {
			corpusLazy = map[string][]byte{}
		}
		corpusLazy[doc] = b
		return b, nil
	}
	return []byte(doc), nil
}

var (
	corpusMu   sync.Mutex
	corpusLazy map[string][]byte
)

func FixtureIDs() []string {
	corpusOnce.Do(loadFixtureCorpus)
	return fixtureIDs
}

func yamlToJSON(y []byte) ([]byte, error) {
	d, err := swag.BytesToYAMLDoc(y)
	if err != nil {
		return nil, err
	}
	j, err := swag.YAMLToJSON(d)
	if err != nil {
		return nil, err
	}
	return j, nil
}

func jsonToYAML(j []byte) ([]byte, error) {
	var v any
	if err := json.Unmarshal(j, &v); err != nil {
		return nil, err
	}
	return yaml.Marshal(v)
}

// specOp draws a whole-specification validation: generated mini spec (mostly) or a small repository fixture.
func specOp(r *Rand) Op {
	op := Op{Kind: KSpec, OrderSeed: orderSeedFor(r), SharedMeta: true, FromFile: r.Chance(250)}
	if ids := FixtureIDs(); len(ids) > 0 && r.Chance(250) {
		op.Doc = pick(r, ids)
	} else {
		doc, _ := GenSpec(r, pick(r, []int{0, 0, 1, 1, 2, 3, 5}))
		op.Doc = js(doc)
	}
	if r.Chance(600) {
		b := r.Chance(500)
		op.COE = &b
	}
	if r.Chance(150) {
		op.Kind = KSpecOne
		op.COE = nil
	}
	op.ReuseSV = op.Kind == KSpec && op.COE != nil && r.Chance(300)
	return op
}
