package main

import (
	"encoding/json"
	"fmt"
	"regexp"
	"sort"
	"strings"

	"github.com/go-openapi/validate"
	rt "verif.local/rt"
)

// C10: validating the same document again - under another map order (= another process), after any other
// validations, from JSON or YAML - yields the same verdict and the same error / warning sets (up to which member of a
// cycle a circular-ancestry message names); errors(stop early) is a subset of errors(continue); warnings alone never
// make a document invalid; the separately returned warnings are exactly the warnings of the main result.

const KReset = "reset" // VerifResetGlobals(): everything process-wide back to its initial state ("another process")

func init() { kindNums[KReset] = 16; kindNames[16] = KReset }

func genC10(seed uint64) *Scenario {
	r := NewRand(seed)
	g := &Gen{r: r}
	sc := &Scenario{Property: "C10", GenSeed: seed, Seed: r.U64(), Pool: swarmPool(r)}
	var doc, twin string
	if ids := FixtureIDs(); len(ids) > 0 && r.Chance(200) {
		doc = pick(r, ids)
	} else {
		// several rule-breaking edits per document: with continue-on-errors every rule runs, so one validation exercises
		// many rules (and several offenders of one rule are what order dependence needs)
		nedits := pick(r, []int{0, 1, 2, 3, 4, 6, 8, 10, 12})
		if r.Chance(200) {
			d, _ := GenSpecSameRule(r)
			doc = js(d)
		} else if r.Chance(250) {
			b, w := GenSpecTwin(r, nedits)
			doc = js(b)
			if w != nil {
				twin = js(w)
			}
		} else {
			d, _ := GenSpec(r, nedits)
			doc = js(d)
		}
	}
	v := newVocab(g, 2, 1, 1, 2)
	var ops []Op
	add := func(op Op) {
		op.UID = uint32(len(ops) + 1)
		ops = append(ops, op)
	}
	bp := func(b bool) *bool { return &b }
	sharedMeta := r.Chance(850)                // swarm: one Swagger meta-schema object for all validations of the run (10x faster after the first) / each document's own
	reuse := r.Chance(500)                     // swarm: the validations of this run share one loaded document object / load the bytes afresh each time
	fromFile := r.Chance(300)                  // swarm: the document is loaded from a file (it then has a file path; $ref resolution takes the file-based branches)
	reuseSV := r.Chance(300)                   // swarm: one long-lived SpecValidator object serves the validations of the run / a new one each time
	floodPM := pick(r, []int{0, 0, 0, 0, 150}) // swarm: some runs compile hundreds of distinct patterns between validations
	nflood := 0
	otherDocsPM := pick(r, []int{250, 250, 250, 700}) // swarm: how often the churn validates another document
	churn := func() {
		if r.Chance(floodPM) {
			nflood++
			add(Op{Kind: KFlood, Str: fmt.Sprintf("fl%d_", nflood), LL: pick(r, []int{70, 140, 300})})
		}
		for i := 0; i < r.Intn(3); i++ {
			if r.Chance(otherDocsPM) {
				// another document (same definition / operation names, other contents) validated in between
				od, _ := GenSpec(r, pick(r, []int{0, 1, 2, 4}))
				add(Op{Kind: KSpec, Doc: js(od), COE: bp(r.Chance(500)), OrderSeed: r.U64() | 1, SharedMeta: sharedMeta, ReuseSV: reuseSV, Role: "other-doc"})
				continue
			}
			if r.Chance(700) {
				add(v.schemaOp(g, []string{KAgainst, KSchemaRec, KSchemaNR}))
			} else {
				add(v.paramOp(g, 800))
			}
		}
	}
	nval := pick(r, []int{2, 3, 4, 4, 5, 6, 8})
	if deep() {
		nval = pick(r, []int{3, 4, 6, 8, 10, 14})
	}
	if r.Chance(200) {
		// the process has validated ANOTHER document (same definition / operation names, other contents) before it sees this one
		od, _ := GenSpec(r, pick(r, []int{0, 1, 2, 4}))
		add(Op{Kind: KSpec, Doc: js(od), COE: bp(r.Chance(500)), OrderSeed: r.U64() | 1, SharedMeta: sharedMeta, ReuseSV: reuseSV, Role: "other-doc"})
	}
	for i := 0; i < nval; i++ {
		if r.Chance(300) || floodPM > 0 || otherDocsPM > 500 {
			churn()
		}
		if r.Chance(120) {
			add(Op{Kind: KReset})
		}
		if r.Chance(200) {
			add(Op{Kind: KSetCOE, COE: bp(r.Chance(500))})
		}
		op := Op{Kind: KSpec, Doc: doc, OrderSeed: r.U64() | 1, YAML: r.Chance(250), Reorder: r.Chance(250), ReuseDoc: reuse && r.Chance(800), SharedMeta: sharedMeta, FromFile: fromFile}
		switch x := r.Intn(10); {
		case x < 4:
			op.COE = bp(false)
		case x < 8:
			op.COE = bp(true)
		case x < 9:
			// captures the package default
		default:
			op.Kind = KSpecOne
		}
		op.ReuseSV = reuseSV && op.Kind == KSpec && op.COE != nil
		if i == 1 {
			// make sure every run repeats at least one (document, option) pair under another order: the same bytes (with
			// reuse_doc the very same loaded object, which the first validation may have altered)
			for k := range ops {
				if ops[k].Kind == KSpec && ops[k].Doc == doc && ops[k].COE != nil {
					op.Kind, op.COE = KSpec, bp(*ops[k].COE)
					op.ReuseSV = reuseSV
					op.Reorder, op.YAML = ops[k].Reorder, ops[k].YAML
					if reuse {
						op.ReuseDoc, ops[k].ReuseDoc = true, true
					}
					break
				}
			}
		}
		if i == 2 || i == 3 {
			// ... and under another serialisation of the same document (member order at i == 2, YAML at i == 3)
			for k := range ops {
				if ops[k].Kind == KSpec && ops[k].Doc == doc && ops[k].COE != nil && ops[k].Role == "" {
					op.Kind, op.COE = KSpec, bp(*ops[k].COE)
					op.ReuseSV = reuseSV
					if i == 2 {
						op.Reorder, op.YAML = !ops[k].Reorder, ops[k].YAML
					} else {
						op.Reorder, op.YAML = ops[k].Reorder, !ops[k].YAML
					}
					break
				}
			}
		}
		add(op)
	}
	if twin != "" {
		// the twin (same document plus warning-only conditions) under both settings: its errors must be those of the document
		sc.Params = map[string]any{"twin_of": doc}
		for _, coe := range []bool{true, false} {
			add(Op{Kind: KSpec, Doc: doc, COE: bp(coe), OrderSeed: r.U64() | 1, SharedMeta: sharedMeta, FromFile: fromFile, ReuseSV: reuseSV, Role: "twin-base"})
			add(Op{Kind: KSpec, Doc: twin, COE: bp(coe), OrderSeed: r.U64() | 1, SharedMeta: sharedMeta, FromFile: fromFile, ReuseSV: reuseSV, Role: "twin"})
		}
	}
	sc.Tasks = [][]Op{ops}
	return sc
}

var circRe = regexp.MustCompile(`definition "([^"]*)" has circular ancestry: \[([^\]]*)\]`)

// defGraph: definition -> definitions it inherits from (allOf members that are $ref, through nested allOf), from the raw document.
func defGraph(raw []byte) map[string][]string {
	var doc struct {
		Definitions map[string]json.RawMessage `json:"definitions"`
	}
	_ = json.Unmarshal(raw, &doc)
	g := map[string][]string{}
	var collect func(m map[string]any, out *[]string)
	collect = func(m map[string]any, out *[]string) {
		if ref, ok := m["$ref"].(string); ok {
			*out = append(*out, ref)
		}
		if arr, ok := m["allOf"].([]any); ok {
			for _, e := range arr {
				if mm, ok := e.(map[string]any); ok {
					collect(mm, out)
				}
			}
		}
	}
	for name, rawDef := range doc.Definitions {
		var m map[string]any
		if json.Unmarshal(rawDef, &m) != nil {
			continue
		}
		var refs []string
		collect(m, &refs)
		g["#/definitions/"+name] = refs
	}
	return g
}

// refCycle tells whether some definition of the raw document reaches itself through $ref (anywhere inside it: properties,
// items, allOf, ...). The expander of the go-openapi/spec dependency resolves such cycles differently depending on the
// map iteration order it happens to use (known finding); the note is attached to violations found on such documents.
func refCycle(raw []byte) bool {
	var doc struct {
		Definitions map[string]json.RawMessage `json:"definitions"`
	}
	if json.Unmarshal(raw, &doc) != nil {
		return false
	}
	g := map[string][]string{}
	var collect func(v any, out *[]string)
	collect = func(v any, out *[]string) {
		switch t := v.(type) {
		case map[string]any:
			for k, e := range t {
				if k == "$ref" {
					if ref, ok := e.(string); ok && strings.HasPrefix(ref, "#/definitions/") {
						*out = append(*out, ref)
					}
					continue
				}
				collect(e, out)
			}
		case []any:
			for _, e := range t {
				collect(e, out)
			}
		}
	}
	for name, rawDef := range doc.Definitions {
		var v any
		if json.Unmarshal(rawDef, &v) != nil {
			continue
		}
		var refs []string
		collect(v, &refs)
		g["#/definitions/"+name] = refs
	}
	for n := range g {
		if c := sccOf(g, n); len(c) > 1 {
			return true
		}
		for _, m := range g[n] {
			if m == n {
				return true
			}
		}
	}
	return false
}

const refCycleNote = " [the document has a circular $ref among its definitions]"

// sccOf returns the strongly connected component of node in g (sorted), or just the node.
func sccOf(g map[string][]string, node string) []string {
	reach := func(from string) map[string]bool {
		seen := map[string]bool{}
		stack := []string{from}
		for len(stack) > 0 {
			n := stack[len(stack)-1]
			stack = stack[:len(stack)-1]
			for _, m := range g[n] {
				if !seen[m] {
					seen[m] = true
					stack = append(stack, m)
				}
			}
		}
		return seen
	}
	fw := reach(node)
	var comp []string
	for m := range fw {
		if reach(m)[node] {
			comp = append(comp, m)
		}
	}
	if len(comp) == 0 {
		comp = []string{node}
	}
	sort.Strings(comp)
	return comp
}

// normaliseCircular rewrites a circular-ancestry message to the cycle (SCC) of the ancestors it lists: which member of
// a cycle gets named may legitimately vary (C10); two different cycles stay different.
func normaliseCircular(msg string, g map[string][]string) string {
	m := circRe.FindStringSubmatch(msg)
	if m == nil {
		return msg
	}
	listed := strings.Fields(m[2])
	if len(listed) == 0 {
		return msg
	}
	comp := sccOf(g, listed[0])
	return circRe.ReplaceAllString(msg, "definition <member> has circular ancestry in cycle {"+strings.Join(comp, " ")+"}")
}

type specOutcome struct {
	valid    bool
	errors   []string
	warnings []string
	panic    string
}

func (o specOutcome) key() string {
	if o.panic != "" {
		return "PANIC " + o.panic
	}
	return fmt.Sprintf("valid=%v\nE:\n  %s\nW:\n  %s", o.valid, strings.Join(o.errors, "\n  "), strings.Join(o.warnings, "\n  "))
}

func normSet(in []string, g map[string][]string) []string {
	out := make([]string, 0, len(in))
	for _, s := range in {
		out = append(out, normaliseCircular(s, g))
	}
	sort.Strings(out)
	return dedupSorted(out)
}

func subset(a, b []string) (string, bool) {
	set := map[string]bool{}
	for _, x := range b {
		set[x] = true
	}
	for _, x := range a {
		if !set[x] {
			return x, false
		}
	}
	return "", true
}

func runC10(sc *Scenario, keepLog bool) *RunReport {
	rep := &RunReport{}
	sim := newSimFor(sc, keepLog)
	defer rt.Install(nil)
	if len(sc.Tasks) == 0 {
		finishReport(rep, sim, nil)
		return rep
	}
	env := &Env{}
	ops := sc.Tasks[0]
	initialCOE := validate.VerifDefaultOpts().ContinueOnErrors
	defCOE := initialCOE
	type firstSeen struct {
		out specOutcome
		op  int
	}
	seen := map[string]firstSeen{} // (doc, effective coe) -> first outcome
	graphs := map[string]map[string][]string{}
	var kinds []string
	nspec := 0
	orders := map[uint64]bool{}
	cycles := map[string]bool{}
	cycleNote := func(doc string) string {
		c, ok := cycles[doc]
		if !ok {
			raw, _ := docBytes(doc)
			c = refCycle(raw)
			cycles[doc] = c
		}
		if c {
			return refCycleNote
		}
		return ""
	}
	viol := func(i int, op *Op, class, site, want, got, detail string) {
		rep.Violations = append(rep.Violations, Violation{Property: "C10", Class: class, OpUID: op.UID, OpKind: op.Kind, Site: site, Expected: want, Got: got,
			Detail: fmt.Sprintf("operation #%d (%s): %s", i, op.brief(), detail) + cycleNote(op.Doc)})
	}
	for i := range ops {
		op := &ops[i]
		if len(rep.Violations) > 0 {
			break
		}
		kinds = append(kinds, op.Kind)
		switch op.Kind {
		case KReset:
			validate.VerifResetGlobals()
			env.meta = nil
			defCOE = initialCOE
			rep.fault("process-state-reset", 1)
			continue
		case KSetCOE:
			env.Exec(op, &rt.OpCtx{UID: op.UID, Kind: kindNums[op.Kind]})
			defCOE = *op.COE
			rep.fault("global-option-set", 1)
			continue
		case KSpec, KSpecOne:
		default:
			// churn: other validations in between (their own correctness is C04's business)
			sim.MaybeClear(op.UID)
			env.Exec(op, &rt.OpCtx{UID: op.UID, Kind: kindNums[op.Kind], OrderSeed: op.OrderSeed})
			rep.Ops++
			continue
		}
		raw, err := docBytes(op.Doc)
		if err != nil {
			rep.HarnessErr = err.Error()
			return rep
		}
		g, ok := graphs[op.Doc]
		if !ok {
			g = defGraph(raw)
			graphs[op.Doc] = g
		}
		eff := defCOE
		if op.Kind == KSpec && op.COE != nil {
			eff = *op.COE
		}
		sim.MaybeClear(op.UID)
		out := env.Exec(op, &rt.OpCtx{UID: op.UID, Kind: kindNums[op.Kind], OrderSeed: op.OrderSeed})
		rep.Ops++
		nspec++
		orders[op.OrderSeed] = true
		if op.YAML {
			rep.fault("yaml-serialisation-variant", 1)
		}
		if op.Reorder {
			rep.fault("member-order-variant", 1)
		}
		if out.Panic != "" {
			if strings.Contains(out.Panic, "inputError") {
				rep.HarnessErr = out.Panic
				return rep
			}
			// spec validation panicking on a loadable document is C07's (input) business, unless it only happens
			// under some orders / histories: then the repetition check below flags it
		}
		so := specOutcome{valid: out.Valid, errors: normSet(out.Errors, g), warnings: normSet(out.Warnings, g), panic: out.Panic}
		// reach: which rules of the specification validator actually fired (message templates)
		for _, m := range so.errors {
			rep.probe("rule-fired E: "+ruleTemplate(m), 1)
		}
		for _, m := range so.warnings {
			rep.probe("rule-fired W: "+ruleTemplate(m), 1)
		}
		if op.Kind == KSpec && out.Panic == "" {
			// (5) the global setter changes what later validators capture, nothing else
			wantCap := fmt.Sprintf("captured_coe=%v ", defCOE)
			if !strings.HasPrefix(out.Extra, wantCap) && !strings.HasPrefix(out.Extra, "captured_coe=reused ") {
				viol(i, op, "option-capture", "captured", wantCap, out.Extra, "a new spec validator did not capture the package-level default in force")
				break
			}
			// (4) separately returned warnings == warnings attached to the main result
			w2 := strings.TrimPrefix(out.Extra[strings.Index(out.Extra, "warnings2=")+len("warnings2="):], "")
			var second []string
			if w2 != "" {
				for _, m := range strings.Split(w2, " || ") {
					second = append(second, normaliseCircular(m[2:], g)) // strip "E:" / "W:"
				}
			}
			sort.Strings(second)
			second = dedupSorted(second)
			if strings.Join(second, "\n") != strings.Join(so.warnings, "\n") {
				viol(i, op, "warnings-mismatch", "second-result", strings.Join(so.warnings, "\n"), strings.Join(second, "\n"),
					"the separately returned warnings differ from the warnings attached to the main result")
				break
			}
			// (3) validity is exactly the absence of errors: warnings alone never invalidate
			if so.valid != (len(so.errors) == 0) {
				viol(i, op, "validity", "verdict", fmt.Sprint(len(so.errors) == 0), fmt.Sprint(so.valid), "verdict is not 'no errors'")
				break
			}
		}
		if op.Role == "twin" && out.Panic == "" {
			// warnings alone never make a document invalid: the same document without the warning-only conditions has the
			// same verdict and the same errors
			if base, _ := sc.Params["twin_of"].(string); base != "" {
				if f, ok := seen[fmt.Sprintf("%s|%v", base, eff)]; ok && f.out.panic == "" {
					rep.fault("warning-only-twin-compared", 1)
					// (only where the added conditions are still recognised as warnings: a library that reports one of them as
					// an error instead has reclassified it, which this property does not forbid)
					_, noNewWarning := subset(so.warnings, f.out.warnings)
					if noNewWarning {
						rep.probe("twin-without-extra-warning", 1)
					} else if f.out.valid != so.valid || twinErrKey(f.out.errors) != twinErrKey(so.errors) {
						viol(i, op, "warnings-change-errors", mismatchSpec(specOutcome{valid: f.out.valid, errors: f.out.errors}, specOutcome{valid: so.valid, errors: so.errors}), f.out.key(), so.key(),
							fmt.Sprintf("this document is the document of validation #%d plus conditions that only warrant warnings, yet its verdict or its errors differ (continue-on-errors=%v)", f.op, eff))
						break
					}
				}
			}
		}
		key := fmt.Sprintf("%s|%v", op.Doc, eff)
		if op.Kind == KSpecOne {
			// the one-shot form returns the errors only: compare verdict and error set with the validator form
			if f, ok := seen[key]; ok && f.out.panic == "" && so.panic == "" {
				if f.out.valid != so.valid || strings.Join(f.out.errors, "\n") != strings.Join(so.errors, "\n") {
					viol(i, op, "repetition-differs", mismatchSpec(f.out, so), f.out.key(), so.key(),
						fmt.Sprintf("one-shot validation differs from validation #%d of the same document with the same effective option (continue-on-errors=%v)", f.op, eff))
				}
			}
			continue
		}
		// (1) repetition: same (document, option) => same verdict and same sets
		if f, ok := seen[key]; ok {
			if f.out.key() != so.key() {
				viol(i, op, "repetition-differs", mismatchSpec(f.out, so), f.out.key(), so.key(),
					fmt.Sprintf("differs from validation #%d of the same document with the same option (continue-on-errors=%v); only map order, serialisation and history changed", f.op, eff))
				break
			}
		} else {
			seen[key] = firstSeen{out: so, op: i}
		}
		// (2) monotone: errors(stop early) subset of errors(continue)
		a, okA := seen[fmt.Sprintf("%s|%v", op.Doc, false)]
		b, okB := seen[fmt.Sprintf("%s|%v", op.Doc, true)]
		if okA && okB && a.out.panic == "" && b.out.panic == "" {
			if miss, ok := subset(a.out.errors, b.out.errors); !ok {
				site := "errors+" + msgTemplate(miss)
				if templateIn(miss, b.out.errors) {
					site = "errors~" + msgTemplate(miss)
				}
				viol(i, op, "not-monotone", site, "every error reported when stopping early is also reported with continue-on-errors", miss,
					fmt.Sprintf("error reported with continue-on-errors=false (validation #%d) is missing with continue-on-errors=true (validation #%d)", a.op, b.op))
				break
			}
			if a.out.valid != b.out.valid {
				viol(i, op, "not-monotone", "verdict", fmt.Sprint(a.out.valid), fmt.Sprint(b.out.valid), "verdict differs between the two continue-on-errors settings")
				break
			}
		}
	}
	// "in the same or another process": the first validation of this run is repeated by a child process that has done
	// nothing else (sorted map order, fresh objects) and must give the same verdict and sets
	if len(rep.Violations) == 0 && rep.HarnessErr == "" {
		var fops []Op
		var fkeys []string
		for i := range ops {
			op := &ops[i]
			if op.Kind != KSpec || op.COE == nil {
				continue
			}
			key := fmt.Sprintf("%s|%v", op.Doc, *op.COE)
			if _, ok := seen[key]; !ok {
				continue
			}
			dup := false
			for _, k := range fkeys {
				if k == key {
					dup = true
				}
			}
			if dup || len(fops) >= 2 {
				continue
			}
			f := *op
			f.OrderSeed = 0
			fops = append(fops, f)
			fkeys = append(fkeys, key)
		}
		if len(fops) > 0 {
			fouts, err := freshOutcomes(fops, nil)
			if err != nil {
				rep.HarnessErr = err.Error()
				return rep
			}
			rep.fault("fresh-process-repetition", len(fops))
			for k, fo := range fouts {
				g := graphs[fops[k].Doc]
				so := specOutcome{valid: fo.Valid, errors: normSet(fo.Errors, g), warnings: normSet(fo.Warnings, g), panic: fo.Panic}
				if f := seen[fkeys[k]]; f.out.key() != so.key() {
					rep.Violations = append(rep.Violations, Violation{Property: "C10", Class: "differs-from-fresh-process", OpUID: ops[f.op].UID, OpKind: KSpec,
						Site: mismatchSpec(so, f.out), Expected: so.key(), Got: f.out.key(),
						Detail: fmt.Sprintf("validation #%d (%s) differs from the same validation performed by a fresh process that did nothing else", f.op, ops[f.op].brief()) + cycleNote(ops[f.op].Doc)})
					break
				}
			}
		}
	}
	rep.probe("spec-validations", nspec)
	rep.fault("same-loaded-document-validated-again", env.docReuses)
	rep.fault("same-spec-validator-object-used-again", env.svReuses)
	rep.probe("distinct-map-orders", len(orders))
	rep.NonTrivial = nspec >= 2
	finishReport(rep, sim, kinds)
	// distinct: the document and the option sequence matter, not only kinds
	h := uint64(1469598103934665603)
	for i := range ops {
		for _, c := range []byte(fmt.Sprintf("%s/%d/%v/%v;", ops[i].Kind, len(ops[i].Doc), ops[i].COE != nil && *ops[i].COE, ops[i].YAML)) {
			h = (h ^ uint64(c)) * 1099511628211
		}
	}
	if len(ops) > 0 {
		for _, c := range []byte(ops[len(ops)-1].Doc) {
			h = (h ^ uint64(c)) * 1099511628211
		}
	}
	rep.Signature ^= h
	return rep
}

// ruleTemplate reduces a message to its plain lower-case words (names, paths, numbers and quoted parts blanked): a
// coarse identity of the rule that produced it, used only for the reach probes of the evidence file.
func ruleTemplate(msg string) string {
	msg = quotedRe.ReplaceAllString(msg, "_")
	var out []string
	for _, w := range strings.Fields(msg) {
		plain := len(w) >= 2
		for _, c := range w {
			if !(c >= 'a' && c <= 'z') && c != ',' && c != ':' {
				plain = false
			}
		}
		if !plain {
			w = "_"
		}
		if w == "_" && len(out) > 0 && out[len(out)-1] == "_" {
			continue
		}
		out = append(out, strings.TrimRight(w, ":,"))
	}
	return trunc(strings.Join(out, " "), 100)
}

func mismatchSpec(a, b specOutcome) string {
	switch {
	case a.panic != b.panic:
		return "panic"
	case strings.Join(a.errors, "\n") != strings.Join(b.errors, "\n"):
		return "errors:" + diffClass(a.errors, b.errors) // (a verdict that differs comes with an error set that differs)
	case a.valid != b.valid:
		return "verdict"
	case strings.Join(a.warnings, "\n") != strings.Join(b.warnings, "\n"):
		return "warnings:" + diffClass(a.warnings, b.warnings)
	}
	return "other"
}

var quotedRe = regexp.MustCompile(`"[^"]*"|\[[^\]]*\]|[0-9]+`)

// diffClass: the message template (quoted names, lists and numbers blanked) of the first message present on one side only.
func diffClass(a, b []string) string {
	inA, inB := map[string]bool{}, map[string]bool{}
	for _, x := range a {
		inA[x] = true
	}
	for _, x := range b {
		inB[x] = true
	}
	var only []string
	for _, x := range a {
		if !inB[x] {
			only = append(only, x)
		}
	}
	for _, x := range b {
		if !inA[x] {
			only = append(only, x)
		}
	}
	if len(only) == 0 {
		return ""
	}
	tmpl := msgTemplate
	for i := range only {
		only[i] = tmpl(only[i])
	}
	sort.Strings(only)
	t := only[0]
	// "~": both sides carry a message of this template, with different contents; "+": only one side has one at all
	hasA, hasB := false, false
	for _, x := range a {
		if tmpl(x) == t {
			hasA = true
		}
	}
	for _, x := range b {
		if tmpl(x) == t {
			hasB = true
		}
	}
	if hasA && hasB {
		return "~" + t
	}
	return "+" + t
}

// templateIn tells whether set carries a message with the same template as msg.
func templateIn(msg string, set []string) bool {
	t := msgTemplate(msg)
	for _, x := range set {
		if msgTemplate(x) == t {
			return true
		}
	}
	return false
}

var ptrDetailRe = regexp.MustCompile(`: (nil value has no field|object has no key) "[^"]*": JSON pointer error`)

// twinErrKey: the error set of a document, for comparison with its twin. The low-level detail of an unresolvable
// reference ("nil value has no field" when the whole section is missing, "object has no key" when the section exists
// without that entry) legitimately changes when the twin adds an entry to such a section: it is blanked.
func twinErrKey(errs []string) string {
	out := make([]string, 0, len(errs))
	for _, e := range errs {
		out = append(out, ptrDetailRe.ReplaceAllString(e, ": <pointer error>"))
	}
	sort.Strings(out)
	return strings.Join(dedupSorted(out), "\n")
}

// msgTemplate: a message with its quoted names, lists and numbers blanked. What follows "First found:" is the text of
// whichever low-level error came first ("object has no key _" / "nil value has no field _" ...): it belongs to the
// variable part of that message, not to its template.
func msgTemplate(s string) string {
	if i := strings.Index(s, "First found:"); i >= 0 {
		s = s[:i+len("First found:")] + " _"
	}
	return quotedRe.ReplaceAllString(s, "_")
}

func init() {
	register(&Prop{
		ID: "C10", Level: "exploration",
		Gen:       func(seed uint64, tier string, idx int) *Scenario { return genC10(mixSeed(seed, uint64(idx))) },
		Run:       runC10,
		QuickRuns: 840, ThoroughS: 1500,
		Rule: "one run = one document (generated mini specification with 0..8 rule-breaking edits out of 41 kinds, or a small repository fixture) validated 2..8 times - the same loaded document object or freshly loaded bytes, one Swagger meta-schema object for the run or each document's own - under different seeded map iteration orders (= Go's per-process randomisation, made replayable), " +
			"from JSON, member-reordered JSON or YAML-converted bytes, with continue-on-errors false/true set per validator or through the package-level setter, after other validations (other documents included) and after a reset of all process-wide state, then once more in a fresh OS process; a quarter of the generated documents come with a twin carrying 1..3 extra warning-only conditions, validated under both settings; " +
			"non-trivial = at least two whole-spec validations; distinct = distinct (document, option/serialisation sequence)",
		Real: commonReal, Stub: commonStub,
		Assume: []string{
			"circular-ancestry messages are normalised to the strongly connected component (allOf/$ref graph of the raw document) of the ancestors they list, as the property allows",
			"no independent oracle for the message sets: the invariants are agreement across repetitions, inclusion between the two modes, and the bookkeeping identities",
		},
		FaultKind: []string{"map-order-permuted", "process-state-reset", "global-option-set", "yaml-serialisation-variant"},
	})
}
