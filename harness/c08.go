package main

import (
	"encoding/json"
	"fmt"
)

// C08: a schema / parameter / header validator built without recycling can be used any number of times, in any order;
// each call gives the verdict and message set of a freshly built validator, whatever the map iteration order.

func genC08(seed uint64) *Scenario {
	r := NewRand(seed)
	g := &Gen{r: r}
	sc := &Scenario{Property: "C08", GenSeed: seed, Seed: r.U64(), Pool: swarmPool(r)}
	v := newVocab(g, r.Range(1, 3), r.Range(1, 2), 1, 3)
	nll := r.Range(1, 3)
	type llv struct {
		schema M
		insts  []string
		tvals  []*TypedVal
	}
	var lls []llv
	for i := 0; i < nll; i++ {
		switch x := r.Intn(10); {
		case x < 6:
			vs := pick(r, v.schemas)
			l := llv{insts: append([]string{}, vs.instances...)}
			if vs.m != nil {
				for k := 0; k < r.Range(1, 4); k++ {
					l.insts = append(l.insts, js(g.Instance(vs.m, 0, r.Chance(500))))
				}
			}
			l.insts = append(l.insts, "null")
			if vs.m != nil && r.Chance(150) {
				// a bulky value: whatever a long-lived validator counts, stacks or remembers per element or per failure
				// gets a chance to overflow / leak within one call
				if it, ok := vs.m["items"].(M); ok {
					var big []any
					for k := 0; k < r.Range(70, 140); k++ {
						big = append(big, g.Instance(it, 1, r.Chance(300)))
					}
					l.insts = append(l.insts, js(big))
				}
			}
			sc.LL = append(sc.LL, &LLValidator{Kind: "schema", Schema: vs.text, Path: pick(r, []string{"", "root", "a.b"})})
			lls = append(lls, l)
		case x < 8:
			p := pick(r, v.params)
			l := llv{}
			for k := 0; k < r.Range(2, 5); k++ {
				l.tvals = append(l.tvals, g.TypedFor(p, r.Chance(600)))
			}
			sc.LL = append(sc.LL, &LLValidator{Kind: "param", Schema: js(p)})
			lls = append(lls, l)
		default:
			h := pick(r, v.headers)
			l := llv{}
			for k := 0; k < r.Range(2, 5); k++ {
				l.tvals = append(l.tvals, g.TypedFor(h, r.Chance(600)))
			}
			sc.LL = append(sc.LL, &LLValidator{Kind: "header", Schema: js(h), Path: "X-H"})
			lls = append(lls, l)
		}
	}
	n := pick(r, []int{2, 3, 4, 6, 8, 12, 20, 30})
	if r.Chance(40) {
		n = pick(r, []int{80, 150, 300}) // long service: counters and leaks that need many calls
	}
	if n >= 30 || r.Chance(100) {
		// ... and bounded memos that need many DISTINCT values: every validator gets a few dozen of them
		for li := range lls {
			def := sc.LL[li]
			for k := 0; k < r.Range(20, 40); k++ {
				switch def.Kind {
				case "schema":
					var m M
					if json.Unmarshal([]byte(def.Schema), &m) == nil {
						inst := g.Instance(m, 0, r.Chance(500))
						if s, ok := inst.(string); ok && r.Chance(700) {
							inst = fmt.Sprintf("%s%d", s, k) // distinct strings around the samples (a0, a1, ...)
						}
						lls[li].insts = append(lls[li].insts, js(inst))
					}
				default:
					var m M
					if json.Unmarshal([]byte(def.Schema), &m) == nil {
						tv := g.TypedFor(m, r.Chance(500))
						if tv.T == "string" && r.Chance(700) {
							var sv string
							_ = json.Unmarshal([]byte(tv.J), &sv)
							tv = &TypedVal{T: "string", J: js(fmt.Sprintf("%s%d", sv, k))}
						}
						lls[li].tvals = append(lls[li].tvals, tv)
					}
				}
			}
		}
	}
	if deep() {
		n = pick(r, []int{3, 6, 12, 30, 60, 100, 300, 600})
	}
	churnPM := pick(r, []int{0, 150, 400})
	numberPM := pick(r, []int{0, 120, 120, 600, 1000}) // swarm: how often numbers reach the validator as json.Number
	var ops []Op
	for i := 0; i < n; i++ {
		var op Op
		if r.Chance(churnPM) {
			if r.Chance(700) {
				op = v.schemaOp(g, []string{KAgainst, KSchemaRec, KSchemaNR})
			} else {
				op = v.paramOp(g, 800)
			}
		} else {
			li := r.Intn(len(lls))
			l := lls[li]
			switch sc.LL[li].Kind {
			case "schema":
				op = Op{Kind: KLLSchema, LL: li, Data: pick(r, l.insts), UseNumber: r.Chance(numberPM), OrderSeed: orderSeedFor(r)}
			case "param":
				op = Op{Kind: KLLParam, LL: li, TVal: pick(r, l.tvals), OrderSeed: orderSeedFor(r)}
			default:
				op = Op{Kind: KLLHeader, LL: li, TVal: pick(r, l.tvals), OrderSeed: orderSeedFor(r)}
			}
		}
		op.UID = uint32(i + 1)
		ops = append(ops, op)
	}
	sc.Tasks = [][]Op{ops}
	return sc
}

func init() {
	register(&Prop{
		ID: "C08", Level: "exploration",
		Gen: func(seed uint64, tier string, idx int) *Scenario { return genC08(mixSeed(seed, uint64(idx))) },
		Run: func(sc *Scenario, keepLog bool) *RunReport {
			return runHistory(sc, sharedHistoryOracle, keepLog, false)
		},
		QuickRuns: 10000, ThoroughS: 900,
		Rule: "one run = 1..3 validators built once without recycling (schema / parameter / header) used for a sequence of 2..30 (4% of the runs: 80..300) values with repeats, some of them bulky (arrays of 70..140 elements), every call under its own map-iteration order, " +
			"optionally with other (recycling) validations in between; each call is compared with a freshly built validator on that value (same order: full outcome incl. match count and schemata digest; another order: verdict and message sets). " +
			"non-trivial = some pooled object travelled between calls; distinct = distinct (operation-kind sequence, recycling edges)",
		Real: commonReal, Stub: commonStub,
		Assume:    []string{"oracle = a freshly built validator executing the call alone with fresh objects", "concurrent sharing of such a validator is covered by C05"},
		FaultKind: []string{"pool-forced-miss", "pool-drop", "pool-clear", "map-order-permuted"},
	})
}
