package main

import (
	"errors"
	"fmt"
	"strings"

	oaerrors "github.com/go-openapi/errors"
	"github.com/go-openapi/strfmt"
	"github.com/go-openapi/validate"
	rt "verif.local/rt"
)

// C20: results combine as ordered sets of messages with additive match counts; later changes to an operand (here: the
// pool re-issuing a released operand to somebody who mutates it) never alter a result it was merged into.

type RStep struct {
	Op     string   `json:"op"` // new | adderr | addwarn | merge | merge_err | merge_warn | inc | query
	I      int      `json:"i"`
	J      []int    `json:"j,omitempty"`
	Msgs   []string `json:"msgs,omitempty"` // "" = a nil error
	Pooled bool     `json:"pooled,omitempty"`
}

type ResultScenario struct {
	Slots int     `json:"slots"`
	Steps []RStep `json:"steps"`
}

func (rs *ResultScenario) brief(n int) []string {
	var out []string
	for i, s := range rs.Steps {
		if i >= n {
			break
		}
		out = append(out, fmt.Sprintf("%s i=%d j=%v msgs=%q pooled=%v", s.Op, s.I, s.J, s.Msgs, s.Pooled))
	}
	return out
}

// reference model: two ordered sets of texts and an integer
type rModel struct {
	live   bool
	pooled bool
	errs   []string
	warns  []string
	match  int
}

func addSet(set []string, msgs ...string) []string {
	for _, m := range msgs {
		dup := false
		for _, x := range set {
			if x == m {
				dup = true
				break
			}
		}
		if !dup {
			set = append(set, m)
		}
	}
	return set
}

// c20Validations: "schema|data" pairs whose validation gives results with 0..3 errors, match counts and schemata.
var c20Validations = []string{
	`{"type":"object","properties":{"a":{"type":"integer"},"b":{"type":"string","minLength":2}},"required":["c"]}|{"a":"x","b":"y"}`,
	`{"type":"object","properties":{"a":{"type":"integer"}}}|{"a":1}`,
	`{"type":"array","items":{"type":"integer","maximum":3}}|[1,5,7]`,
	`{"anyOf":[{"type":"string"},{"type":"integer","maximum":3}]}|5`,
	`{"allOf":[{"type":"object","properties":{"a":{"type":"string"}}},{"required":["b"]}]}|{"a":1}`,
	`{"type":"string","maxLength":1}|"abc"`,
	`{"type":"integer"}|1`,
}

func genC20(seed uint64) *Scenario {
	r := NewRand(seed)
	sc := &Scenario{Property: "C20", GenSeed: seed, Seed: r.U64(), Pool: swarmPool(r)}
	// drops and clears would only make the re-issue of a released operand rarer
	if r.Chance(700) {
		sc.Pool.DropPM, sc.Pool.ClearPM = 0, 0
	}
	slots := r.Range(2, 6)
	n := pick(r, []int{2, 3, 4, 6, 8, 12, 20, 35, 60})
	if deep() {
		n = pick(r, []int{4, 8, 16, 30, 60, 120, 200})
	}
	texts := []string{"e1", "e2", "e3", "w1", "w2", "same", "same", "x y", ""}
	if r.Chance(250) {
		// many distinct messages: de-duplication over long lists, repeats that are far apart or inside one batch
		for i := 0; i < pick(r, []int{12, 24, 48}); i++ {
			texts = append(texts, fmt.Sprintf("m%d", i))
		}
	}
	batchMax := pick(r, []int{3, 3, 6, 10})
	rs := &ResultScenario{Slots: slots}
	pooledPM := pick(r, []int{0, 300, 600, 900})
	for i := 0; i < slots && i < 3; i++ {
		rs.Steps = append(rs.Steps, RStep{Op: "new", I: i, Pooled: r.Chance(pooledPM)})
	}
	for len(rs.Steps) < n {
		st := RStep{I: r.Intn(slots)}
		switch x := r.Intn(100); {
		case x < 14:
			st.Op = "new"
			st.Pooled = r.Chance(pooledPM)
			if r.Chance(200) {
				// a result produced by a real validation: it carries errors, a match count and schemata
				st.Op, st.Pooled = "newval", false
				st.Msgs = []string{pick(r, c20Validations)}
			}
		case x < 34:
			st.Op = "adderr"
		case x < 48:
			st.Op = "addwarn"
		case x < 66:
			st.Op = "merge"
		case x < 76:
			st.Op = "merge_err"
		case x < 86:
			st.Op = "merge_warn"
		case x < 92:
			st.Op = "inc"
		default:
			st.Op = "query"
			if r.Chance(300) {
				st.I = -1 // a nil result
			}
		}
		switch st.Op {
		case "adderr", "addwarn":
			for k := 0; k < r.Range(1, batchMax); k++ {
				t := pick(r, texts)
				if t != "" && r.Chance(120) {
					t = pick(r, []string{"w:", "c:"}) + t // a wrapper / composite around (possibly) an error value used before
				}
				st.Msgs = append(st.Msgs, t)
			}
			if len(st.Msgs) >= 2 && r.Chance(300) {
				st.Msgs = append(st.Msgs, st.Msgs[0]) // the same text again inside one call
			}
		case "merge", "merge_err", "merge_warn":
			for k := 0; k < r.Range(1, 3); k++ {
				j := r.Intn(slots+1) - 1 // -1 = nil operand
				if j == st.I && !r.Chance(250) {
					continue // the receiver as its own operand: sometimes (plain results only, see the runner)
				}
				dup := false
				for _, o := range st.J {
					if o == j {
						dup = true
					}
				}
				if !dup || r.Chance(250) { // the same operand twice in one call: sometimes
					st.J = append(st.J, j)
				}
			}
		}
		rs.Steps = append(rs.Steps, st)
	}
	sc.Results = rs
	return sc
}

// errFactory builds the error values of one run. Texts repeat; the values carrying them are sometimes new, sometimes
// the very value used before, sometimes a wrapper ("w:<t>": fmt.Errorf with %w) or a composite ("c:<t>": a go-openapi
// CompositeError) around a value used before: de-duplication is by exact message text and by nothing else.
type errFactory struct {
	seen map[string]error
	n    int
}

func (f *errFactory) mk(msgs []string) []error {
	if f.seen == nil {
		f.seen = map[string]error{}
	}
	out := make([]error, 0, len(msgs))
	for _, m := range msgs {
		f.n++
		switch {
		case m == "":
			out = append(out, nil)
		case strings.HasPrefix(m, "w:"):
			inner := f.value(m[2:])
			out = append(out, fmt.Errorf("wrapped(%s): %w", m[2:], inner))
		case strings.HasPrefix(m, "c:"):
			inner := f.value(m[2:])
			out = append(out, oaerrors.CompositeValidationError(inner, errors.New("and "+m[2:])))
		default:
			out = append(out, f.value(m))
		}
	}
	return out
}

// value returns an error value with text m: every third time the value handed out before for that text.
func (f *errFactory) value(m string) error {
	if e, ok := f.seen[m]; ok && f.n%3 == 0 {
		return e
	}
	e := errors.New(m)
	f.seen[m] = e
	return e
}

// errTexts: the message texts of the non-nil errors, as the model sees them.
func errTexts(errs []error) []string {
	var out []string
	for _, e := range errs {
		if e != nil {
			out = append(out, e.Error())
		}
	}
	return out
}

func texts(errs []error) []string {
	out := make([]string, 0, len(errs))
	for _, e := range errs {
		if e == nil {
			out = append(out, "<nil>")
		} else {
			out = append(out, e.Error())
		}
	}
	return out
}

func runC20(sc *Scenario, keepLog bool) (rep *RunReport) {
	rep = &RunReport{}
	sim := newSimFor(sc, keepLog)
	defer rt.Install(nil)
	rs := sc.Results
	if rs == nil {
		rep.HarnessErr = "C20 scenario without result steps"
		return rep
	}
	res := make([]*validate.Result, rs.Slots)
	mod := make([]rModel, rs.Slots)
	var kinds []string
	viol := func(i int, st RStep, site, want, got string) {
		rep.Violations = append(rep.Violations, Violation{
			Property: "C20", Class: "model-mismatch", OpUID: uint32(i + 1), OpKind: st.Op, Site: site, Expected: want, Got: got,
			Detail: fmt.Sprintf("after step #%d (%s i=%d j=%v msgs=%q pooled=%v) a live result differs from the ordered-set model", i, st.Op, st.I, st.J, st.Msgs, st.Pooled),
		})
	}
	releasedReissued := 0
	fac := &errFactory{}
	for i, st := range rs.Steps {
		if st.I >= rs.Slots {
			continue
		}
		ctx := &rt.OpCtx{UID: uint32(i + 1), Kind: 20, OrderSeed: 0}
		var panicked any
		func() {
			rt.BeginOp(ctx)
			defer rt.EndOp()
			defer func() { panicked = recover() }()
			switch st.Op {
			case "new":
				if st.I < 0 {
					return
				}
				// the previous occupant of the slot is simply forgotten by the caller
				if st.Pooled {
					before := sim.Stats.Recycled
					res[st.I] = validate.VerifBorrowResult()
					if sim.Stats.Recycled > before {
						releasedReissued++
					}
				} else {
					res[st.I] = new(validate.Result)
				}
				mod[st.I] = rModel{live: true, pooled: st.Pooled}
			case "newval":
				if st.I < 0 || len(st.Msgs) == 0 {
					return
				}
				parts := strings.SplitN(st.Msgs[0], "|", 2)
				sch, err1 := parseSchema(parts[0])
				data, err2 := decodeJSON(parts[1], false)
				if err1 != nil || err2 != nil {
					panic(inputError{fmt.Errorf("c20 validation pair %q", st.Msgs[0])})
				}
				var vr *validate.Result
				switch i % 3 {
				case 0:
					vr = validate.NewSchemaValidator(sch, nil, "", strfmt.Default).Validate(data)
				case 1:
					vr = validate.NewSchemaValidator(sch, nil, "", strfmt.Default, validate.WithRecycleValidators(true)).Validate(data)
				default:
					// as AgainstSchema does internally: the result itself is pooled (released by the merge it is an operand of)
					vr = validate.VerifPooledValidation(sch, data, strfmt.Default)
				}
				res[st.I] = vr
				// the model starts from what the validation reported (its correctness is not C20's business)
				m := rModel{live: true, pooled: validate.VerifWantsRedeem(vr), match: vr.MatchCount}
				m.errs = addSet(nil, errTexts(vr.Errors)...)
				m.warns = addSet(nil, errTexts(vr.Warnings)...)
				mod[st.I] = m
				rep.probe("operands-produced-by-validations", 1)
			case "adderr":
				if st.I < 0 || !mod[st.I].live {
					return
				}
				es := fac.mk(st.Msgs)
				res[st.I].AddErrors(es...)
				mod[st.I].errs = addSet(mod[st.I].errs, errTexts(es)...)
			case "addwarn":
				if st.I < 0 || !mod[st.I].live {
					return
				}
				es := fac.mk(st.Msgs)
				res[st.I].AddWarnings(es...)
				mod[st.I].warns = addSet(mod[st.I].warns, errTexts(es)...)
			case "inc":
				if st.I < 0 || !mod[st.I].live {
					return
				}
				res[st.I].Inc()
				mod[st.I].match++
			case "merge", "merge_err", "merge_warn":
				if st.I < 0 || !mod[st.I].live {
					return
				}
				var operands []*validate.Result
				given := map[int]bool{}
				for _, j := range st.J {
					// a pooled result is released by the merge it is an operand of: handing it in twice, or merging a
					// pooled receiver into itself, would be the caller's error, not the library's - such operands become nil.
					// Plain results may be their own operand and may be given twice: merging is defined operand after operand.
					if j < 0 || j >= rs.Slots || !mod[j].live || (mod[j].pooled && (j == st.I || given[j])) {
						operands = append(operands, nil)
						continue
					}
					if j == st.I || given[j] {
						rep.probe("self-or-repeated-operand", 1)
					}
					given[j] = true
					operands = append(operands, res[j])
					m := &mod[st.I]
					oe, ow, om := append([]string(nil), mod[j].errs...), append([]string(nil), mod[j].warns...), mod[j].match
					switch st.Op {
					case "merge":
						m.errs = addSet(m.errs, oe...)
						m.warns = addSet(m.warns, ow...)
					case "merge_err":
						m.errs = addSet(m.errs, oe...)
						m.errs = addSet(m.errs, ow...)
					case "merge_warn":
						m.warns = addSet(m.warns, oe...)
						m.warns = addSet(m.warns, ow...)
					}
					m.match += om
				}
				switch st.Op {
				case "merge":
					res[st.I].Merge(operands...)
				case "merge_err":
					res[st.I].MergeAsErrors(operands...)
				case "merge_warn":
					res[st.I].MergeAsWarnings(operands...)
				}
				// a pooled operand is released by the merge: the caller must not use it any more
				for _, j := range st.J {
					if j >= 0 && j < rs.Slots && j != st.I && mod[j].live && mod[j].pooled {
						mod[j] = rModel{}
						res[j] = nil
						rep.fault("operand-released-by-merge", 1)
					}
				}
			case "query":
				var r *validate.Result
				wantValid, wantWarn, wantAny := true, false, false
				if st.I >= 0 && mod[st.I].live {
					r = res[st.I]
					wantValid = len(mod[st.I].errs) == 0
					wantWarn = len(mod[st.I].warns) > 0
					wantAny = !wantValid || wantWarn
				}
				// AsError renders the errors (all of them, in order) as one composite error, nil when there is none
				asErr := "<nil>"
				if e := r.AsError(); e != nil {
					if ce, ok := e.(*oaerrors.CompositeError); ok {
						asErr = strings.Join(texts(ce.Errors), "|")
					} else {
						asErr = "(not a composite error) " + e.Error()
					}
				}
				wantAsErr := "<nil>"
				if st.I >= 0 && mod[st.I].live && !wantValid {
					wantAsErr = strings.Join(mod[st.I].errs, "|")
				}
				got := fmt.Sprintf("IsValid=%v HasErrors=%v HasWarnings=%v HasErrorsOrWarnings=%v AsError=[%s]", r.IsValid(), r.HasErrors(), r.HasWarnings(), r.HasErrorsOrWarnings(), asErr)
				want := fmt.Sprintf("IsValid=%v HasErrors=%v HasWarnings=%v HasErrorsOrWarnings=%v AsError=[%s]", wantValid, !wantValid, wantWarn, wantAny, wantAsErr)
				if got != want {
					viol(i, st, "query", want, got)
				}
			}
		}()
		kinds = append(kinds, st.Op)
		rep.Ops++
		if panicked != nil {
			viol(i, st, "panic", "no panic", fmt.Sprint(panicked))
			break
		}
		if len(rep.Violations) > 0 {
			break
		}
		// compare every live result with the model, order included
		for k := range mod {
			if !mod[k].live {
				continue
			}
			r := res[k]
			ge, gw := strings.Join(texts(r.Errors), "|"), strings.Join(texts(r.Warnings), "|")
			we, ww := strings.Join(mod[k].errs, "|"), strings.Join(mod[k].warns, "|")
			switch {
			case ge != we:
				viol(i, st, "errors", fmt.Sprintf("slot %d errors [%s]", k, we), fmt.Sprintf("slot %d errors [%s]", k, ge))
			case gw != ww:
				viol(i, st, "warnings", fmt.Sprintf("slot %d warnings [%s]", k, ww), fmt.Sprintf("slot %d warnings [%s]", k, gw))
			case r.MatchCount != mod[k].match:
				viol(i, st, "matchcount", fmt.Sprintf("slot %d match %d", k, mod[k].match), fmt.Sprintf("slot %d match %d", k, r.MatchCount))
			case r.IsValid() != (len(mod[k].errs) == 0):
				viol(i, st, "validity", fmt.Sprint(len(mod[k].errs) == 0), fmt.Sprint(r.IsValid()))
			}
			if len(rep.Violations) > 0 {
				break
			}
		}
		if len(rep.Violations) > 0 {
			break
		}
	}
	rep.fault("released-operand-reissued-and-mutated", releasedReissued)
	rep.NonTrivial = rep.Ops >= 2
	finishReport(rep, sim, kinds)
	// distinct = distinct step sequences (with operands), not only kinds
	h := uint64(1469598103934665603)
	for _, st := range rs.Steps {
		for _, c := range []byte(fmt.Sprintf("%s/%d/%v/%q/%v;", st.Op, st.I, st.J, st.Msgs, st.Pooled)) {
			h ^= uint64(c)
			h *= 1099511628211
		}
	}
	rep.Signature ^= h
	return rep
}

func init() {
	register(&Prop{
		ID: "C20", Level: "exploration",
		Gen:       func(seed uint64, tier string, idx int) *Scenario { return genC20(mixSeed(seed, uint64(idx))) },
		Run:       runC20,
		QuickRuns: 100000, ThoroughS: 600,
		Rule: "one run = one sequence of 2..60 steps (new / AddErrors / AddWarnings / Merge / MergeAsErrors / MergeAsWarnings / Inc / queries incl. the content of AsError; nil, self, repeated and self-similar operands; plain and pooled results) " +
			"checked step by step against an ordered-set model; the simulated pool re-issues operands released by a merge to the next borrower, who mutates them; non-trivial = at least 2 executed steps; distinct = distinct step sequences",
		Real: commonReal, Stub: commonStub,
		Assume: []string{
			"the reference model is the statement of C20 itself: per category an ordered set of message texts, plus an integer",
			"pooled operands are obtained through an accessor generated into the scratch copy (the public API never hands out pooled results); a merge kills a pooled operand in the model, as the library's contract says",
		},
		FaultKind: []string{"operand-released-by-merge", "released-operand-reissued-and-mutated"},
	})
}
