package main

import (
	"encoding/json"
	"fmt"
	"regexp"
	"strings"
	"time"

	rt "verif.local/rt"
)

// C15: matching always uses the expression that was asked for: exactly Go's regexp compiled from that very pattern,
// invalid patterns always reported invalid, whatever was used before or is being compiled concurrently.

// pattern alphabet: chosen to collide under plausible wrong cache keys (case, prefixes, added anchors / whitespace, equal length)
var c15Patterns = []string{
	"^a", "^A", "a", "a ", " a", "^a$", "^ab", "^a|b", "ab", "ba", "^[a-c]+$", "^[A-C]+$", "[a-c]+", "(", "(a", "a)", "[", "^a.", "^a.*", "a$", "A$", `\d+`, `\D+`, "^.{2}$", "^.{3}$", "", "(?i)^a", "^b",
	// invalid patterns whose offending fragment (what regexp/syntax quotes in its error) is itself a valid pattern, next to that fragment
	"[9-0]", "9-0", "a{2,1}", "{2,1}", `a\`, "^[z-a]$", "z-a", `\8`, "x**", "**",
	// invalid patterns whose defects cancel when their texts are glued together (alternation, concatenation)
	"(b", "a)", "x[", "y]", "(?:a", "b)", "[a", "b]",
}
var c15Subjects = []string{"", "a", "A", "ab", "ba", "b", "abc", "ABC", "a ", " a", "aa", "12", "x", "Ab", "cab"}

// variants adds, for every base pattern, the variants under which a wrongly normalised cache key would collide with it
// although the expressions differ: swapped case (\d <-> \D, \pL <-> \pl), flag prefixes, added whitespace / anchors.
func patternVariants(base []string) []string {
	swap := func(s string) string {
		b := []byte(s)
		for i, c := range b {
			switch {
			case c >= 'a' && c <= 'z':
				b[i] = c - 32
			case c >= 'A' && c <= 'Z':
				b[i] = c + 32
			}
		}
		return string(b)
	}
	seen := map[string]bool{}
	var out []string
	add := func(p string) {
		if !seen[p] {
			seen[p] = true
			out = append(out, p)
		}
	}
	for _, p := range base {
		add(p)
		add(swap(p))
		add("(?i)" + p)
		add("(?i)" + swap(p))
		add(p + " ")
		add(" " + p)
		add("^" + p)
		add(p + "$")
		add("(?s)" + p)
	}
	return out
}

var c15Bases = []string{"a", "ab", `\d+`, `\pL+`, "[a-c]+", "^a.", `\w\W`, `x\b`}

func init() {
	c15Patterns = append(c15Patterns, patternVariants(c15Bases)...)
	c15Subjects = append(c15Subjects, "1", "a1", "é", "A B", "ab ", "x y")
}

func stdExpect(pattern, subject string) (bool, bool) {
	re, err := regexp.Compile(pattern)
	if err != nil {
		return false, false
	}
	return true, re.MatchString(subject)
}

// rotation patterns: pattern i matches exactly its own subject
func rotPattern(i int) string { return fmt.Sprintf("^r%dx$", i) }
func rotSubject(i int) string { return fmt.Sprintf("r%dx", i) }

// plausible bounds of a bounded cache, and sizes just around them
var c15Bounds = []int{8, 16, 32, 64, 100, 128, 250, 256, 500, 512, 1000, 1024}

// the copy-on-write cache makes n first-time uses cost n*n/2 map insertions: the two largest sizes only in the thorough tier
func c15BoundsFor() []int {
	return c15Bounds // (the two largest sizes were thorough-only while the controller still spun on a core)
}

// genC15Rotation: one caller cycling over w distinct patterns for a few laps, w just around a plausible cache bound:
// every use after the first lap is a repeated use of a pattern that may have been evicted (or be about to be) meanwhile.
func genC15Rotation(r *Rand, sc *Scenario) {
	w := pick(r, c15BoundsFor()) + r.Range(-1, 3)
	laps := r.Range(2, 4)
	var ops []Op
	uid := uint32(0)
	for l := 0; l < laps; l++ {
		for i := 0; i < w; i++ {
			uid++
			subj := rotSubject(i)
			if r.Chance(250) {
				subj = rotSubject((i + 1) % w) // must not match
			}
			ops = append(ops, Op{UID: uid, Kind: KPattern, Path: "p", Pattern: rotPattern(i), Str: subj, Role: "rotation"})
		}
	}
	sc.Tasks = [][]Op{ops}
}

// genC15Churn: the cache is first filled (by the controller, before the callers start) with n = bound + 0..3 patterns;
// then readers make repeated uses of the oldest entries that a cache of that bound still holds while writers make
// first-time uses of new patterns (each of which evicts one of them, if the cache is bounded at that size).
func genC15Churn(r *Rand, sc *Scenario) {
	bound := pick(r, c15BoundsFor())
	n := bound + r.Range(0, 3)
	sc.Params = map[string]any{"prefill": float64(n)}
	uid := uint32(0)
	readers, writers := r.Range(1, 3), r.Range(1, 2)
	for t := 0; t < readers+writers; t++ {
		var ops []Op
		for i := 0; i < r.Range(3, 10); i++ {
			uid++
			if t < readers {
				k := n - bound + r.Intn(6)
				if k >= n {
					k = n - 1
				}
				subj := rotSubject(k)
				if r.Chance(250) {
					subj = rotSubject(k + 1)
				}
				ops = append(ops, Op{UID: uid, Kind: KPattern, Path: "p", Pattern: rotPattern(k), Str: subj, Role: "hot"})
			} else {
				k := n + int(uid)
				ops = append(ops, Op{UID: uid, Kind: KPattern, Path: "p", Pattern: rotPattern(k), Str: rotSubject(k), Role: "churn"})
			}
		}
		sc.Tasks = append(sc.Tasks, ops)
	}
}

func genC15(seed uint64) *Scenario {
	r := NewRand(seed)
	sc := &Scenario{Property: "C15", GenSeed: seed, Seed: r.U64()}
	sc.Sched = swarmSched(r)
	switch x := r.Intn(100); {
	case x < 2:
		genC15Rotation(r, sc)
		return sc
	case x < 5:
		genC15Churn(r, sc)
		return sc
	}
	ntasks := pick(r, []int{1, 1, 2, 2, 3, 4, 4, 6, 8})
	if r.Chance(30) {
		ntasks = pick(r, []int{16, 32, 64})
	}
	// a small per-run subset of patterns, so that first-time and repeated uses of the same pattern meet
	np := r.Range(2, 6)
	pats := make([]string, 0, np)
	for i := 0; i < np; i++ {
		pats = append(pats, pick(r, c15Patterns))
	}
	if r.Chance(500) {
		// a base pattern together with some of its near-collision variants
		vs := patternVariants([]string{pick(r, c15Bases)})
		for i := 0; i < r.Range(2, 4); i++ {
			pats = append(pats, pick(r, vs))
		}
	}
	uid := uint32(0)
	// swarm knob: some runs use more distinct patterns than any plausible bound of the cache (eviction paths)
	bigCache := 0
	if r.Chance(60) && ntasks <= 4 {
		bigCache = pick(r, []int{40, 80, 150, 300})
	}
	for t := 0; t < ntasks; t++ {
		nops := r.Range(1, 6)
		if ntasks > 8 {
			nops = r.Range(1, 2)
		}
		var ops []Op
		if bigCache > 0 {
			for i := 0; i < bigCache/ntasks+1; i++ {
				uid++
				p := fmt.Sprintf("^x{%d}y%d$", (i*ntasks+t)%7+1, i*ntasks+t)
				ops = append(ops, Op{UID: uid, Kind: KPattern, Path: "p", Pattern: p, Str: pick(r, []string{"x", "xy0", "xxy1"}), Role: "fill"})
			}
		}
		for i := 0; i < nops; i++ {
			uid++
			p := pick(r, pats)
			s := pick(r, c15Subjects)
			op := Op{UID: uid, Pattern: p, Str: s, OrderSeed: orderSeedFor(r)}
			switch x := r.Intn(12); {
			case x >= 10:
				// the same pattern through the simple-schema entry points: a parameter, a header, or the items of an array parameter
				switch r.Intn(3) {
				case 0:
					op.Kind, op.Role = KParam, "param-pattern"
					op.Schema = js(M{"name": "p", "in": "query", "type": "string", "pattern": p})
					op.TVal = &TypedVal{T: "string", J: js(s)}
				case 1:
					op.Kind, op.Role, op.Path = KHeader, "header-pattern", "X-P"
					op.Schema = js(M{"type": "string", "pattern": p})
					op.TVal = &TypedVal{T: "string", J: js(s)}
				default:
					op.Kind, op.Role = KParam, "items-pattern"
					op.Schema = js(M{"name": "p", "in": "query", "type": "array", "items": M{"type": "string", "pattern": p}})
					op.TVal = &TypedVal{T: "[]string", J: js([]string{s})}
				}
				op.Recycle = r.Chance(600)
				if s == "" {
					// (the empty string takes the required / allowEmptyValue path of the simple validators, not the pattern)
					op.Str = "k"
					op.TVal.J = strings.Replace(op.TVal.J, `""`, `"k"`, 1)
				}
			case x < 5:
				op.Kind = KPattern
				op.Path = "p"
			case x < 8:
				// schema validation of a string against {"type":"string","pattern":P}
				op.Kind = KAgainst
				op.Role = "string-pattern"
				op.Schema = js(M{"type": "string", "pattern": p})
				op.Data = js(s)
			default:
				// patternProperties: the key must match P, then the value must be an integer; nothing else is allowed
				op.Kind = KAgainst
				op.Role = "pattern-properties"
				pp := M{p: M{"type": "integer"}}
				if r.Chance(450) {
					// several patterns side by side, valid and invalid ones: a member is covered iff one that compiles matches it
					for k := 0; k < r.Range(1, 2); k++ {
						pp[pick(r, append(pats, "(b", "a)", "x[", "y]"))] = M{"type": "integer"}
					}
				}
				op.Schema = js(M{"type": "object", "patternProperties": pp, "additionalProperties": false})
				if s == "" || s == "$schema" || s == "id" {
					s = "k"
					op.Str = s
				}
				op.Data = js(M{s: 1})
			}
			ops = append(ops, op)
		}
		sc.Tasks = append(sc.Tasks, ops)
	}
	return sc
}

// swarmSched draws a scheduling policy for one run.
func swarmSched(r *Rand) rt.SchedPolicy {
	return rt.SchedPolicy{
		Kind:     r.Intn(rt.SchedModes),
		SwitchPM: pick(r, []int{20, 50, 100, 250, 500}),
		Depth:    r.Range(1, 3),
		ChasePM:  pick(r, []int{100, 300, 600}),
	}
}

func runC15(sc *Scenario, keepLog bool) *RunReport {
	rep := &RunReport{}
	resetForRun() // cold cache: first-time compilations happen inside the run
	sim := newSimFor(sc, keepLog)
	defer rt.Install(nil)
	if n, ok := sc.Params["prefill"].(float64); ok && n > 0 {
		// the controller fills the cache before the callers start (inline: no context switches, same simulator)
		env := &Env{}
		for i := 0; i < int(n); i++ {
			op := Op{UID: 0x20000000 + uint32(i), Kind: KPattern, Path: "p", Pattern: rotPattern(i), Str: rotSubject(i)}
			if out := env.Exec(&op, &rt.OpCtx{UID: op.UID, Kind: kindNums[KPattern]}); !out.Valid {
				rep.Violations = append(rep.Violations, Violation{Property: "C15", Class: "outcome-mismatch", OpUID: op.UID, OpKind: op.Kind, Site: "verdict",
					Expected: "valid", Got: out.Key(), Detail: fmt.Sprintf("prefill #%d (%s): differs from Go's regexp package compiled from that very pattern", i, op.brief())})
				break
			}
		}
		rep.probe("cache-prefilled-patterns", int(n))
	}
	cr := runConcurrent(sc, sim, nil, nil, 60*time.Second)
	var kinds []string
	if cr.Run.Stuck {
		rep.HarnessErr = "watchdog: a task did not come back to the controller"
		return rep
	}
	for _, p := range cr.Run.TaskPanic {
		rep.HarnessErr = "task panicked outside an operation: " + p
		return rep
	}
	if cr.Run.Deadlock {
		rep.Violations = append(rep.Violations, Violation{Property: "C15", Class: "deadlock", Site: "all tasks blocked",
			Detail: "all unfinished tasks are blocked on a mutex of package validate: some call never returns"})
	}
	raceViolations("C15", cr, rep)
	rep.probe("hb-token-table-overflow (objects sharing the fallback token: races may be missed)", int(cr.TokOverflow))
	for ti := range sc.Tasks {
		for i := range sc.Tasks[ti] {
			op := &sc.Tasks[ti][i]
			kinds = append(kinds, op.Kind)
			rep.Ops++
			if i >= len(cr.Outs[ti]) {
				continue
			}
			got := cr.Outs[ti][i]
			ok, match := stdExpect(op.Pattern, op.Str)
			wantValid := ok && match
			if op.Role == "pattern-properties" {
				// the member is allowed iff at least one of the patterns compiles and matches its name
				var sch struct {
					PP map[string]json.RawMessage `json:"patternProperties"`
				}
				_ = json.Unmarshal([]byte(op.Schema), &sch)
				wantValid = false
				anyInvalid := false
				for pat := range sch.PP {
					c, m := stdExpect(pat, op.Str)
					if c && m {
						wantValid = true
					}
					if !c {
						anyInvalid = true
					}
				}
				if anyInvalid && !got.Valid && got.Panic == "" {
					// an invalid pattern among them: rejecting the document (however it is worded) is a way of reporting it;
					// what must not happen is that the member is accepted although no pattern that compiles matches it
					continue
				}
			}
			if got.Panic != "" {
				rep.Violations = append(rep.Violations, Violation{Property: "C15", Class: "outcome-mismatch", OpUID: op.UID, OpKind: op.Kind, Site: "panic",
					Expected: fmt.Sprintf("valid=%v", wantValid), Got: got.Key(), Detail: fmt.Sprintf("task %d op #%d (%s) panicked", ti, i, op.brief())})
				continue
			}
			bad := got.Valid != wantValid
			site := "verdict"
			if !bad && op.Kind == KPattern && !ok {
				// an invalid pattern must be reported as invalid, not as a mere mismatch
				if len(got.Errors) != 1 || !regexp.MustCompile(`pattern is invalid`).MatchString(got.Errors[0]) {
					bad, site = true, "invalid-pattern-not-reported"
				}
			}
			if !bad && op.Kind == KPattern && ok && !match {
				if len(got.Errors) != 1 || regexp.MustCompile(`pattern is invalid`).MatchString(got.Errors[0]) {
					bad, site = true, "valid-pattern-reported-invalid"
				}
			}
			if bad {
				rep.Violations = append(rep.Violations, Violation{Property: "C15", Class: "outcome-mismatch", OpUID: op.UID, OpKind: op.Kind, Site: site,
					Expected: fmt.Sprintf("regexp.Compile(%q): compiles=%v MatchString(%q)=%v => valid=%v", op.Pattern, ok, op.Str, match, wantValid),
					Got:      got.Key(),
					Detail:   fmt.Sprintf("task %d op #%d (%s %s): differs from Go's regexp package compiled from that very pattern", ti, i, op.brief(), op.Role)})
			}
		}
	}
	rep.probe("cache-size-at-end", 0)
	rep.NonTrivial = sim.Stats.Switches > 0 || len(sc.Tasks) == 1
	finishReport(rep, sim, kinds)
	// distinct: the pattern/subject sequence matters too
	h := uint64(1469598103934665603)
	for ti := range sc.Tasks {
		for i := range sc.Tasks[ti] {
			for _, c := range []byte(sc.Tasks[ti][i].Pattern + "\x00" + sc.Tasks[ti][i].Str + "\x01") {
				h = (h ^ uint64(c)) * 1099511628211
			}
		}
		h = (h ^ 0xff) * 1099511628211
	}
	rep.Signature ^= h
	return rep
}

func init() {
	register(&Prop{
		ID: "C15", Level: "exploration", Race: true,
		Gen:       func(seed uint64, tier string, idx int) *Scenario { return genC15(mixSeed(seed, uint64(idx))) },
		Run:       runC15,
		QuickRuns: 16000, ThoroughS: 900,
		Rule: "one run = 1..8 (occasionally 16..64) simulated caller goroutines issuing Pattern() calls and schema validations with pattern / patternProperties over a small alphabet of valid and invalid patterns chosen to collide under wrong cache keys, " +
			"or (5% of the runs) one caller rotating over bound-1..bound+3 distinct patterns for 2..4 laps / readers re-using the oldest entries of a cache pre-filled with bound+0..3 patterns while writers make first-time uses, for plausible cache bounds 8..512 (1024 in the thorough tier); " +
			"starting from a cold cache, under a seeded schedule with scheduling points before every atomic load/store and mutex operation of the regexp cache and every pool operation; oracle = regexp.Compile of that very pattern; built with -race. " +
			"non-trivial = at least one context switch inside the run, or a sequential history; distinct = distinct (operation kinds, pattern/subject sequence, switch sites)",
		Real: commonReal,
		Stub: append(append([]string{}, commonStub...), "sync.Mutex / sync.Locker / atomic / sync.Map / sync.Once / channel operations of package validate -> scheduling point, then the real operation (mutex: TryLock loop; channels: non-blocking retries); sync.Cond -> ticket emulation (Wait releases L and is blocked until notified)", "goroutine scheduling -> baton scheduler (one runnable task at a time, seeded choice)"),
		Assume: []string{
			"preemption only at synchronisation points of package validate (complete for race-free executions; racy ones are reported by the race detector within its window)",
			"a lost cache entry is not a violation (only recompilation)",
		},
		FaultKind: []string{"context-switches", "mutex-contended"},
	})
}
