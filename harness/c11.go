package main

import (
	"fmt"
	"os"
	"strings"
	"time"

	rt "verif.local/rt"
)

// C11: a panic during one validation (raised by a caller-supplied format checker at its k-th invocation, or the
// documented invalid-schema panic raised while a sub-validator is being built) does not corrupt later validations.

var fmtSamples = map[string][]string{
	"date":      {"2020-01-01", "nope"},
	"email":     {"a@b.co", "nope"},
	"uuid":      {"3f2504e0-4f89-11d3-9a0c-0305e82c3301", "nope"},
	"ipv4":      {"127.0.0.1", "nope"},
	"date-time": {"2020-01-01T10:00:00Z", "nope"},
	"hostname":  {"example.com", "-"},
	"uri":       {"http://a.b/c", "::"},
}

var fmtNames = []string{"date", "email", "uuid", "ipv4", "date-time", "hostname", "uri"}

// formatSchema builds a schema whose validation calls the format registry several times, at several depths.
func formatSchema(g *Gen, depth int) M {
	r := g.r
	leaf := func() M {
		s := M{"type": "string", "format": pick(r, fmtNames)}
		if r.Chance(200) {
			s["minLength"] = pick(r, lens)
		}
		return s
	}
	if depth <= 0 {
		return leaf()
	}
	switch r.Intn(8) {
	case 7:
		// under "not": whatever is switched on for the duration of the negated schema must be switched off again
		n := M{"not": formatSchema(g, depth-1)}
		if r.Chance(500) {
			n["type"] = pick(r, []string{"object", "string", "array"})
		}
		return n
	case 0:
		return leaf()
	case 1:
		props := M{}
		for i := 0; i < r.Range(1, 3); i++ {
			props[pick(r, propNames)] = formatSchema(g, depth-1)
		}
		s := M{"type": "object", "properties": props}
		if r.Chance(300) {
			s["additionalProperties"] = formatSchema(g, depth-1)
		}
		if r.Chance(400) {
			// a sibling that is absent from the instance and has a default (it is "created from defaults")
			props[pick(r, propNames)] = M{"type": "string", "default": "x"}
			if r.Chance(500) {
				s["required"] = []any{pick(r, propNames)}
			}
		}
		return s
	case 2:
		a := M{"type": "array", "items": formatSchema(g, depth-1)}
		if r.Chance(400) {
			a["uniqueItems"] = true // whatever a validator remembers about the items seen so far must not outlive an aborted call
		}
		return a
	case 3:
		return M{"type": "array", "items": []any{formatSchema(g, depth-1), formatSchema(g, depth-1)}}
	case 4:
		return M{pick(r, []string{"allOf", "anyOf", "oneOf"}): []any{formatSchema(g, depth-1), formatSchema(g, depth-1)}}
	case 5:
		return M{"allOf": []any{formatSchema(g, depth-1), g.Schema(depth - 1)}}
	default:
		// a schema-valued dependency applies to the whole object: it reaches a format checker through a property
		depSchema := func() M {
			if r.Chance(300) {
				return formatSchema(g, depth-1)
			}
			return M{"properties": M{pick(r, propNames): leaf()}}
		}
		deps := M{pick(r, propNames): depSchema()}
		if r.Chance(700) {
			// several members with a dependency each (schema-valued and list-valued): work queued per member
			for i := 0; i < r.Range(1, 3); i++ {
				k := pick(r, propNames)
				if _, dup := deps[k]; !dup {
					if r.Chance(500) {
						deps[k] = []any{pick(r, propNames)}
					} else {
						deps[k] = depSchema()
					}
				}
			}
		}
		o := M{"type": "object", "dependencies": deps}
		if r.Chance(400) {
			o["patternProperties"] = M{pick(r, ppPatterns[:5]): formatSchema(g, depth-1)}
		}
		return o
	}
}

// formatInstance builds an instance that drives validation into the format leaves.
func formatInstance(g *Gen, s M, depth int) any {
	r := g.r
	if depth > 5 {
		return "x"
	}
	if f, ok := s["format"].(string); ok {
		if v, ok := fmtSamples[f]; ok {
			return pick(r, v)
		}
		return "x"
	}
	for _, kw := range []string{"allOf", "anyOf", "oneOf"} {
		if arr, ok := s[kw].([]any); ok && len(arr) > 0 {
			if sub, ok := pick(r, arr).(M); ok {
				return formatInstance(g, sub, depth+1)
			}
		}
	}
	if sub, ok := s["not"].(M); ok {
		return formatInstance(g, sub, depth+1) // drive validation into the formats of the negated schema
	}
	switch s["type"] {
	case "object":
		o := M{}
		if props, ok := s["properties"].(M); ok {
			for _, k := range sortedKeys(props) {
				if sub, ok := props[k].(M); ok && r.Chance(850) {
					if _, hasDefault := sub["default"]; hasDefault {
						continue // left out: the validator counts it as created from its default
					}
					o[k] = formatInstance(g, sub, depth+1)
				}
			}
		}
		if ap, ok := s["additionalProperties"].(M); ok {
			o["z"] = formatInstance(g, ap, depth+1)
		}
		if deps, ok := s["dependencies"].(M); ok {
			// every member that has a dependency is present; members that a dependency schema describes carry a value
			// that drives validation into its format
			for _, k := range sortedKeys(deps) {
				if _, has := o[k]; !has {
					o[k] = 1
				}
			}
			for _, k := range sortedKeys(deps) {
				if sub, ok := deps[k].(M); ok {
					if ps, ok := sub["properties"].(M); ok {
						for _, pk := range sortedKeys(ps) {
							if psub, ok := ps[pk].(M); ok {
								o[pk] = formatInstance(g, psub, depth+1)
							}
						}
					}
				}
			}
		}
		if pp, ok := s["patternProperties"].(M); ok && s["dependencies"] == nil {
			for _, k := range sortedKeys(pp) {
				if sub, ok := pp[k].(M); ok {
					for _, name := range propNames {
						o[name] = formatInstance(g, sub, depth+1)
						_ = k
					}
				}
			}
		}
		return o
	case "array":
		switch it := s["items"].(type) {
		case M:
			n := r.Range(1, 3)
			a := make([]any, 0, n)
			for i := 0; i < n; i++ {
				a = append(a, formatInstance(g, it, depth+1))
			}
			return a
		case []any:
			a := make([]any, 0, len(it))
			for _, e := range it {
				if sub, ok := e.(M); ok {
					a = append(a, formatInstance(g, sub, depth+1))
				}
			}
			return a
		}
	}
	return g.Instance(s, depth, true)
}

func formatParam(g *Gen) (M, *TypedVal) {
	r := g.r
	f := pick(r, fmtNames)
	p := M{"name": "p", "in": "query"}
	if r.Chance(500) {
		p["type"] = "string"
		p["format"] = f
		return p, &TypedVal{T: "string", J: js(pick(r, fmtSamples[f]))}
	}
	p["type"] = "array"
	p["items"] = M{"type": "string", "format": f}
	n := r.Range(1, 3)
	vals := make([]string, 0, n)
	for i := 0; i < n; i++ {
		vals = append(vals, pick(r, fmtSamples[f]))
	}
	return p, &TypedVal{T: "[]string", J: js(vals)}
}

// brokenRefSchema: a schema with an unresolvable local $ref at some depth: building the sub-validator panics (the
// documented invalid-schema panic) in the middle of a validation.
func brokenRefSchema(g *Gen) (M, any) {
	r := g.r
	bad := M{"$ref": "#/definitions/missing"}
	good := formatSchema(g, 1)
	switch r.Intn(7) {
	case 5:
		return M{"type": "object", "not": M{"properties": M{"a": good, "b": bad}}}, M{"a": formatInstance(g, good, 0), "b": 1}
	case 6:
		return M{"anyOf": []any{M{"properties": M{"a": good}}, M{"items": bad, "properties": M{"b": bad}}}}, pick(r, []any{M{"a": formatInstance(g, good, 0), "b": 1}, []any{1}})
	case 0:
		return M{"type": "object", "properties": M{"a": good, "b": bad}}, M{"a": formatInstance(g, good, 0), "b": 1}
	case 1:
		return M{"type": "array", "items": []any{good, bad}}, []any{formatInstance(g, good, 0), 1}
	case 2:
		return M{"type": "object", "properties": M{"a": good}, "additionalProperties": bad}, M{"a": formatInstance(g, good, 0), "zz": 1}
	case 3:
		return M{"type": "object", "properties": M{"a": good}, "dependencies": M{"a": bad}}, M{"a": formatInstance(g, good, 0)}
	default:
		return M{"type": "object", "properties": M{"a": good}, "patternProperties": M{"^z": bad}}, M{"a": formatInstance(g, good, 0), "zz": 1}
	}
}

func genC11(seed uint64, withSpec bool) *Scenario {
	r := NewRand(seed)
	g := &Gen{r: r}
	sc := &Scenario{Property: "C11", GenSeed: seed, Seed: r.U64(), Pool: swarmPool(r)}
	// drops and clears make it less likely that the damaged pool is observed: keep them rare here
	if r.Chance(600) {
		sc.Pool.DropPM, sc.Pool.ClearPM = 0, 0
	}
	v := newVocab(g, r.Range(1, 3), 1, 1, 2)
	// format-heavy shapes join the vocabulary: they are both victims and revealers
	nfmt := r.Range(2, 4)
	for i := 0; i < nfmt; i++ {
		m := formatSchema(g, r.Range(0, 3))
		vs := vocSchema{text: js(m), m: nil}
		for k := 0; k < 3; k++ {
			vs.instances = append(vs.instances, js(formatInstance(g, m, 0)))
		}
		v.schemas = append(v.schemas, vs)
	}
	var ops []Op
	uid := uint32(0)
	add := func(op Op, role string) {
		uid++
		op.UID = uid
		op.Role = role
		ops = append(ops, op)
	}
	for i := 0; i < r.Intn(4); i++ {
		if r.Chance(750) {
			add(v.schemaOp(g, []string{KAgainst, KSchemaRec, KSchemaNR}), "prefix")
		} else {
			add(v.paramOp(g, 750), "prefix")
		}
	}
	// the victim
	llVictim := !withSpec && r.Chance(120)
	if llVictim && r.Chance(250) {
		// the documented invalid-schema panic raised lazily inside a long-lived validator, which goes on being used: a
		// fresh validator panics again on documents that reach the broken part and judges the others normally
		m, inst := brokenRefSchema(g)
		sc.LL = []*LLValidator{{Kind: "schema", Schema: js(m)}}
		add(Op{Kind: KLLSchema, LL: 0, Data: js(inst), OrderSeed: orderSeedFor(r), Fault: &Fault{Kind: "invalid-schema"}}, "victim")
		for i := 0; i < r.Range(1, 4); i++ {
			d := js(inst)
			if r.Chance(500) {
				d = pick(r, []string{`{"a":1}`, `{}`, `[1]`, `{"a":"2020-01-01"}`, `{"b":1}`})
			}
			add(Op{Kind: KLLSchema, LL: 0, Data: d, OrderSeed: orderSeedFor(r)}, "suffix")
		}
	} else if llVictim {
		// a long-lived (non-recycling) validator is the victim and goes on being used afterwards
		if r.Chance(700) {
			vs := v.schemas[len(v.schemas)-1-r.Intn(nfmt)]
			sc.LL = []*LLValidator{{Kind: "schema", Schema: vs.text, Faulty: true}}
			add(Op{Kind: KLLSchema, LL: 0, Data: pick(r, vs.instances), OrderSeed: orderSeedFor(r), Fault: &Fault{Kind: "checker-panic"}}, "victim")
			for i := 0; i < r.Range(1, 4); i++ {
				add(Op{Kind: KLLSchema, LL: 0, Data: pick(r, vs.instances), OrderSeed: orderSeedFor(r)}, "suffix")
			}
		} else {
			p, tv := formatParam(g)
			sc.LL = []*LLValidator{{Kind: "param", Schema: js(p), Faulty: true}}
			add(Op{Kind: KLLParam, LL: 0, TVal: tv, OrderSeed: orderSeedFor(r), Fault: &Fault{Kind: "checker-panic"}}, "victim")
			for i := 0; i < r.Range(1, 3); i++ {
				_, tv2 := formatParam(g)
				if tv2.T == tv.T {
					add(Op{Kind: KLLParam, LL: 0, TVal: tv2, OrderSeed: orderSeedFor(r)}, "suffix")
				}
			}
		}
	}
	switch x := r.Intn(100); {
	case llVictim:
	case withSpec:
		op := specOp(r)
		op.Kind = KSpec
		if r.Chance(600) {
			// a document breaking many rules at once: whatever the aborted validation leaves switched off shows in a later one
			d, _ := GenSpec(r, pick(r, []int{3, 5, 8}))
			op.Doc = js(d)
		}
		op.Fault = &Fault{Kind: "checker-panic"}
		if r.Chance(450) {
			// the SpecValidator object itself goes on being used after the panic (for the same and for another document)
			if op.COE == nil {
				t := r.Chance(500)
				op.COE = &t
			}
			op.ReuseSV = true
			add(op, "victim")
			again := op
			again.Fault, again.OrderSeed = nil, orderSeedFor(r)
			add(again, "suffix")
			if r.Chance(500) {
				other := specOp(r)
				other.Kind, other.COE, other.ReuseSV = KSpec, op.COE, true
				add(other, "suffix")
			}
			break
		}
		add(op, "victim")
	case x < 50:
		m := formatSchema(g, r.Range(1, 3))
		op := Op{Kind: pick(r, []string{KAgainst, KAgainst, KSchemaRec, KSchemaNR}), Schema: js(m), Data: js(formatInstance(g, m, 0)), OrderSeed: orderSeedFor(r)}
		if r.Chance(500) {
			// a shape of the vocabulary: the suffix validates the very same schema again, with its other instances
			vs := v.schemas[len(v.schemas)-1-r.Intn(nfmt)]
			op.Schema, op.Data = vs.text, pick(r, vs.instances)
		}
		op.Fault = &Fault{Kind: "checker-panic"}
		add(op, "victim")
	case x < 65:
		p, tv := formatParam(g)
		op := Op{Kind: KParam, Schema: js(p), TVal: tv, Recycle: true, OrderSeed: orderSeedFor(r), Fault: &Fault{Kind: "checker-panic"}}
		if r.Chance(400) {
			delete(p, "name")
			delete(p, "in")
			op.Kind = KHeader
			op.Schema = js(p)
			op.Path = "X-H"
		}
		add(op, "victim")
	case x < 75:
		op := v.schemaOp(g, []string{KAgainst, KSchemaRec})
		op.Fault = &Fault{Kind: "checker-panic"}
		add(op, "victim")
	default:
		m, inst := brokenRefSchema(g)
		op := Op{Kind: pick(r, []string{KAgainst, KSchemaRec}), Schema: js(m), Data: js(inst), OrderSeed: orderSeedFor(r), Fault: &Fault{Kind: "invalid-schema"}}
		add(op, "victim")
	}
	if !withSpec && r.Chance(150) {
		// a second aborted validation later in the history (its injection point is drawn, not enumerated)
		m := formatSchema(g, r.Range(1, 2))
		add(Op{Kind: pick(r, []string{KAgainst, KSchemaRec, KSchemaNR}), Schema: js(m), Data: js(formatInstance(g, m, 0)), OrderSeed: orderSeedFor(r),
			Fault: &Fault{Kind: "checker-panic", K: r.Range(1, 5)}}, "victim2")
	}
	ns := pick(r, []int{1, 2, 3, 4, 6, 8, 12})
	if deep() {
		ns = pick(r, []int{2, 4, 8, 12, 20, 30})
	}
	if withSpec && ns > 4 {
		ns = 4
	}
	for i := 0; i < ns; i++ {
		if r.Chance(200) {
			// revealer: members required but absent, no defaults anywhere: any leftover "created from defaults"
			// bookkeeping, stale required list or stale property map shows as a wrong verdict
			req := []any{pick(r, propNames)}
			if r.Chance(500) {
				req = append(req, pick(r, propNames))
			}
			inst := M{}
			if r.Chance(400) {
				inst[pick(r, propNames)] = 1
			}
			add(Op{Kind: pick(r, []string{KAgainst, KAgainst, KSchemaRec}), Schema: js(M{"type": "object", "required": req}), Data: js(inst), OrderSeed: orderSeedFor(r)}, "suffix")
			continue
		}
		if r.Chance(120) {
			// revealer: dependencies on members the data does not have, beside / inside a composition (several props
			// validators alive at once): any leftover "member present" bookkeeping shows as a spurious dependency error
			dep := M{"dependencies": M{pick(r, propNames): []any{"z"}, pick(r, propNames): []any{"y"}}}
			sch := M{pick(r, []string{"allOf", "anyOf", "oneOf"}): []any{dep, M{}}}
			if r.Chance(300) {
				sch = dep
			}
			inst := M{}
			if r.Chance(500) {
				inst[pick(r, []string{"q", "a", "e"})] = 1
			}
			add(Op{Kind: pick(r, []string{KAgainst, KAgainst, KSchemaRec}), Schema: js(sch), Data: js(inst), OrderSeed: orderSeedFor(r)}, "suffix")
			continue
		}
		if r.Chance(800) {
			add(v.schemaOp(g, []string{KAgainst, KAgainst, KSchemaRec, KSchemaNR}), "suffix")
		} else {
			add(v.paramOp(g, 750), "suffix")
		}
	}
	sc.Tasks = [][]Op{ops}
	return sc
}

// runC11 executes the history once per injection point: a dry run counts the checker invocations N of the victim and
// every k in 1..N is executed (sampled above 64). A scenario whose victim carries an explicit K runs only that one.
func runC11(sc *Scenario, keepLog bool) *RunReport {
	if len(sc.Tasks) == 0 {
		return &RunReport{HarnessErr: "C11 scenario without operations"}
	}
	vi := -1
	for i := range sc.Tasks[0] {
		if sc.Tasks[0][i].Fault != nil {
			vi = i
			break
		}
	}
	if vi < 0 || sc.Tasks[0][vi].Fault.Kind != "checker-panic" || sc.Tasks[0][vi].Fault.K > 0 {
		return runHistory(sc, sharedHistoryOracle, keepLog, false)
	}
	// dry run of the victim alone, counting registry invocations
	victim := sc.Tasks[0][vi]
	victim.Fault = &Fault{Kind: "checker-count"}
	if strings.HasPrefix(victim.Kind, "ll_") && victim.LL < len(sc.LL) {
		// a call of a long-lived validator is counted on a freshly built validator of the same definition
		ll := sc.LL[victim.LL]
		switch victim.Kind {
		case KLLSchema:
			victim.Kind, victim.Schema, victim.Path = KSchemaNR, ll.Schema, ll.Path
		case KLLParam:
			victim.Kind, victim.Schema, victim.Recycle = KParam, ll.Schema, false
		case KLLHeader:
			victim.Kind, victim.Schema, victim.Path, victim.Recycle = KHeader, ll.Schema, ll.Path, false
		}
	}
	env := &Env{}
	out := env.Exec(&victim, &rt.OpCtx{UID: victim.UID, Kind: kindNums[victim.Kind], OrderSeed: victim.OrderSeed, Oracle: true})
	n := 0
	if env.LastReg != nil {
		n = env.LastReg.calls
	}
	total := &RunReport{Faults: map[string]int{}, Probes: map[string]int{}, Edges: map[string]int{}}
	if out.Panic != "" {
		total.Excluded = 1
		return total
	}
	total.probe("victim-checker-invocations", n)
	if n == 0 {
		total.probe("victim-without-checker-call", 1)
	}
	ks := make([]int, 0, n)
	maxK := 64
	if v, ok := sc.Params["max_k"].(float64); ok && v > 0 {
		maxK = int(v)
	}
	if n <= maxK {
		for k := 1; k <= n; k++ {
			ks = append(ks, k)
		}
	} else {
		rr := NewRand(sc.Seed)
		seen := map[int]bool{}
		for len(ks) < maxK {
			k := 1 + rr.Intn(n)
			if rr.Chance(500) {
				// the later phases of a long validation (a whole specification: defaults, examples) get their share
				k = n - rr.Intn(n*2/5+1)
			}
			if !seen[k] {
				seen[k] = true
				ks = append(ks, k)
			}
		}
		total.probe("injection-points-sampled", 1)
	}
	var h uint64 = 1469598103934665603
	for _, k := range ks {
		if os.Getenv("VERIF_DEBUG") != "" {
			fmt.Fprintf(os.Stderr, "DEBUG C11 k=%d of %d at %s\n", k, n, time.Now().Format("15:04:05.000"))
		}
		c := sc.Clone()
		c.Tasks[0][vi].Fault = &Fault{Kind: "checker-panic", K: k}
		rep := runHistory(c, sharedHistoryOracle, keepLog, false)
		total.Ops += rep.Ops
		total.Excluded += rep.Excluded
		total.Steps += rep.Steps
		h = (h ^ rep.EventHash) * 1099511628211
		total.Signature ^= mixSeed(rep.Signature, uint64(k))
		addStats(&total.Stats, &rep.Stats)
		for e, cnt := range rep.Edges {
			total.Edges[e] += cnt
		}
		for f, cnt := range rep.Faults {
			total.Faults[f] += cnt
		}
		for f, cnt := range rep.Probes {
			total.Probes[f] += cnt
		}
		if rep.HarnessErr != "" {
			total.HarnessErr = rep.HarnessErr
		}
		total.Log = append(total.Log, rep.Log...)
		if len(rep.Violations) > 0 {
			for _, v := range rep.Violations {
				v.Detail = fmt.Sprintf("panic injected at checker invocation k=%d of %d: %s", k, n, v.Detail)
				total.Violations = append(total.Violations, v)
			}
			// the scenario that reproduces it pins k
			sc.Tasks[0][vi].Fault = &Fault{Kind: "checker-panic", K: k}
			total.EventHash = rep.EventHash
			total.NonTrivial = true
			return total
		}
		if rep.Faults["checker-panic-fired"] > 0 {
			total.NonTrivial = true
		}
	}
	total.EventHash = h
	return total
}

func addStats(a, b *rt.Stats) {
	a.Gets += b.Gets
	a.Recycled += b.Recycled
	a.FreshEmpty += b.FreshEmpty
	a.ForcedMiss += b.ForcedMiss
	a.Puts += b.Puts
	a.Drops += b.Drops
	a.Clears += b.Clears
	a.DoublePuts += b.DoublePuts
	a.DualOwner += b.DualOwner
	a.NilPuts += b.NilPuts
	a.ForeignRecycles += b.ForeignRecycles
	a.CrossTaskRecycles += b.CrossTaskRecycles
	a.UnknownOriginPuts += b.UnknownOriginPuts
	a.Yields += b.Yields
	a.Switches += b.Switches
	a.MutexBlocked += b.MutexBlocked
}

func init() {
	register(&Prop{
		ID: "C11", Level: "fault_enumeration",
		Gen: func(seed uint64, tier string, idx int) *Scenario {
			withSpec := idx%67 == 17
			if tier == "thorough" {
				withSpec = idx%37 == 17
			}
			sc := genC11(mixSeed(seed, uint64(idx)), withSpec)
			if withSpec {
				// a whole-specification victim calls the registry hundreds of times and costs 0.3 s per execution
				sc.Params = map[string]any{"max_k": 16.0}
				if tier == "thorough" {
					sc.Params["max_k"] = 64.0
				}
			}
			return sc
		},
		Run:       runC11,
		QuickRuns: 3000, ThoroughS: 1200,
		Rule: "one run = one history (prefix, victim, suffix) executed once per injection point: a dry run counts the format-checker invocations N of the victim and the panic is injected at every k in 1..N (64 sampled above that), " +
			"or the victim is a schema with an unresolvable $ref at some depth (documented invalid-schema panic raised mid-validation); victims are one-shot, recycling, non-recycling or long-lived validators (the latter go on being used), parameter / header validators or a whole-specification validation (16 / 64 sampled points); sometimes a second validation is aborted later; the caller recovers; every suffix operation is compared with its fresh-process outcome; a call that would block forever counts as a wrong outcome. " +
			"non-trivial = the injected panic actually fired; distinct = distinct (operation kinds, recycling edges, k)",
		Real: commonReal,
		Stub: append(append([]string{}, commonStub...), "strfmt.Registry handed to the library -> wrapper around the real strfmt.Default that panics at the k-th Validates/ContainsName call"),
		Assume: []string{
			"only the two panic kinds the property names are injected (caller-supplied checker, documented invalid-schema panic); no panics at arbitrary internal points",
			"oracle = same call alone with fresh objects",
		},
		FaultKind: []string{"checker-panic-fired", "invalid-schema-fired"},
	})
}
