package main

import (
	"fmt"

	rt "verif.local/rt"
)

// swarmPool draws a pool policy for one run.
func swarmPool(r *Rand) rt.PoolPolicy {
	return rt.PoolPolicy{
		Mode:    r.Intn(rt.PoolModes),
		MissPM:  pick(r, []int{0, 0, 50, 100, 300}),
		DropPM:  pick(r, []int{0, 0, 0, 100, 250}),
		ClearPM: pick(r, []int{0, 0, 0, 50, 150}),
	}
}

// vocab is the per-run vocabulary of validation shapes. Operations of a run are drawn from a small vocabulary with
// repeats, so that the same pooled objects serve validations whose constraints differ and collide.
type vocab struct {
	reuseSchemas bool // swarm: operations of this run share parsed schema objects
	schemas      []vocSchema
	params       []M
	headers      []M
}

type vocSchema struct {
	text      string
	m         M // nil for corpus schemas
	instances []string
}

func newVocab(g *Gen, nSchemas, nParams, nHeaders int, maxDepth int) *vocab {
	r := g.r
	v := &vocab{reuseSchemas: r.Chance(400)}
	suite := SuitePairs()
	for i := 0; i < nSchemas; i++ {
		if len(suite) > 0 && r.Chance(400) {
			p := pick(r, suite)
			vs := vocSchema{text: p.Schema}
			// all instances the suite has for that schema
			for _, q := range suite {
				if q.Schema == p.Schema {
					vs.instances = append(vs.instances, q.Data)
				}
			}
			v.schemas = append(v.schemas, vs)
			continue
		}
		m := g.Schema(r.Range(0, maxDepth))
		if r.Chance(250) {
			m = g.WithRefs(m)
		}
		vs := vocSchema{text: js(m), m: m}
		for k := 0; k < r.Range(1, 4); k++ {
			vs.instances = append(vs.instances, js(g.Instance(m, 0, r.Chance(550))))
		}
		v.schemas = append(v.schemas, vs)
	}
	if r.Chance(60) {
		// a validation that reports very many messages (66..90 required members missing): buffers grown for it go back to the pools
		n := r.Range(66, 90)
		req := make([]any, 0, n)
		for i := 0; i < n; i++ {
			req = append(req, fmt.Sprintf("r%d", i))
		}
		m := M{"type": "object", "required": req}
		if r.Chance(400) {
			m = M{"allOf": []any{m, M{"type": "object"}}}
		}
		v.schemas = append(v.schemas, vocSchema{text: js(m), m: m, instances: []string{"{}", `{"r0":1}`, `{"r0":1,"r1":2,"x":3}`}})
	}
	for i := 0; i < nParams; i++ {
		v.params = append(v.params, g.Param())
	}
	for i := 0; i < nHeaders; i++ {
		v.headers = append(v.headers, g.Header())
	}
	return v
}

func orderSeedFor(r *Rand) uint64 {
	if r.Chance(150) {
		return 0
	}
	return r.U64() | 1
}

// schemaOp draws one schema-level operation from the vocabulary.
func (v *vocab) schemaOp(g *Gen, kinds []string) Op {
	r := g.r
	vs := pick(r, v.schemas)
	op := Op{Kind: pick(r, kinds), Schema: vs.text, OrderSeed: orderSeedFor(r)}
	// a caller keeping its parsed schema around and validating with it again (schemas without $ref: the library expands
	// references in place, by design)
	op.ReuseSchema = v.reuseSchemas && !hasRef(vs.text)
	if r.Chance(850) || vs.m == nil {
		op.Data = pick(r, vs.instances)
	} else {
		op.Data = js(g.Instance(vs.m, 0, r.Chance(500)))
	}
	if r.Chance(100) {
		op.Data = "null" // early exit: nil data
	}
	op.UseNumber = r.Chance(150)
	op.Swagger = r.Chance(80)
	if !op.Swagger && r.Chance(60) {
		op.OptMode = r.Range(2, 3)
	}
	if op.Kind != KAgainst && r.Chance(80) {
		op.SkipSchemata = true
	}
	if r.Chance(300) {
		op.Path = pick(r, []string{"root", "a.b", "x"})
	}
	return op
}

var swaggerPaths = []string{"definitions.A.properties", "x.properties", "p.default", "q.example", "items", "definitions.items", "body", "a.properties.properties", "x"}

// swaggerOp: an instance that looks like a schema (members type / items / properties / default) validated with the
// Swagger rules on, at paths that look like places inside a specification: what spec validation does thousands of
// times, as a cheap schema-level operation. Path-dependent behaviour of recycled object validators lives here.
func (v *vocab) swaggerOp(g *Gen) Op {
	r := g.r
	inst := M{}
	if r.Chance(700) {
		inst["type"] = pick(r, []any{"array", "string", "object", 5})
	}
	if r.Chance(600) {
		inst["items"] = pick(r, []any{M{"type": "string"}, "x", M{}})
	}
	if r.Chance(300) {
		inst["properties"] = M{"items": M{"type": "string"}}
	}
	if r.Chance(200) {
		inst["default"] = 1
	}
	schema := pick(r, []string{`{"type":"object"}`, `{"type":"object","properties":{"type":{},"items":{}}}`, `{"properties":{"items":{"type":"object"}},"additionalProperties":true}`, `{}`})
	return Op{Kind: pick(r, []string{KSchemaRec, KSchemaRec, KSchemaNR, KAgainst}), Schema: schema, Data: js(inst), Swagger: r.Chance(850), Path: pick(r, swaggerPaths), OrderSeed: orderSeedFor(r)}
}

func (v *vocab) paramOp(g *Gen, recyclePM int) Op {
	r := g.r
	if len(v.headers) > 0 && r.Chance(400) {
		h := pick(r, v.headers)
		return Op{Kind: KHeader, Schema: js(h), Path: pick(r, []string{"X-A", "X-B", "X-A", "X-B", ""}), TVal: g.TypedFor(h, r.Chance(600)),
			Recycle: r.Chance(recyclePM), OrderSeed: orderSeedFor(r)}
	}
	p := pick(r, v.params)
	return Op{Kind: KParam, Schema: js(p), TVal: g.TypedFor(p, r.Chance(600)), Recycle: r.Chance(recyclePM), OrderSeed: orderSeedFor(r)}
}

// genC04 generates one history for C04: a mix of all recycling entry points (and non-recycling ones, which draw
// pooled results as well), including operations that end early.
func genC04(seed uint64, withSpec bool) *Scenario {
	r := NewRand(seed)
	g := &Gen{r: r}
	sc := &Scenario{Property: "C04", GenSeed: seed, Seed: r.U64(), Pool: swarmPool(r)}
	n := pick(r, []int{1, 2, 3, 3, 4, 5, 6, 8, 10, 15, 25, 40})
	maxDepth := 3
	if deep() {
		n = pick(r, []int{2, 3, 5, 8, 12, 20, 40, 70, 120})
		maxDepth = 4
	}
	v := newVocab(g, r.Range(1, 5), r.Range(1, 3), r.Range(1, 2), maxDepth)
	// swarm: the operation mix varies per run
	wAgainst, wRec, wNR, wParam := r.Range(1, 6), r.Range(0, 4), r.Range(0, 2), r.Range(0, 4)
	wSwag := pick(r, []int{0, 0, 1, 3})
	wSpec := 0
	if withSpec {
		wSpec = 2
		if n > 6 {
			n = 6
		}
	}
	floodAt := -1
	if r.Chance(25) {
		floodAt = r.Intn(n) // somewhere in the history hundreds of distinct patterns are compiled
	}
	total := wAgainst + wRec + wNR + wParam + wSpec + wSwag
	ops := make([]Op, 0, n)
	for i := 0; i < n; i++ {
		x := r.Intn(total)
		var op Op
		switch {
		case x < wAgainst:
			op = v.schemaOp(g, []string{KAgainst})
		case x < wAgainst+wRec:
			op = v.schemaOp(g, []string{KSchemaRec})
		case x < wAgainst+wRec+wNR:
			op = v.schemaOp(g, []string{KSchemaNR})
		case x < wAgainst+wRec+wNR+wParam:
			op = v.paramOp(g, 750)
		case x < wAgainst+wRec+wNR+wParam+wSwag:
			op = v.swaggerOp(g)
		default:
			op = specOp(r)
		}
		if r.Chance(40) {
			// revealer: members required but absent, no default anywhere: leftover "created from its default" bookkeeping,
			// a stale required list or a stale property map shows as a wrong verdict
			req := []any{pick(r, propNames)}
			if r.Chance(500) {
				req = append(req, pick(r, propNames))
			}
			inst := M{}
			if r.Chance(400) {
				inst[pick(r, propNames)] = 1
			}
			op = Op{Kind: pick(r, []string{KAgainst, KAgainst, KSchemaRec}), Schema: js(M{"type": "object", "required": req}), Data: js(inst), OrderSeed: orderSeedFor(r)}
		}
		if i == floodAt {
			op = Op{Kind: KFlood, Str: "fl_", LL: pick(r, []int{140, 300})}
		}
		op.UID = uint32(i + 1)
		ops = append(ops, op)
	}
	sc.Tasks = [][]Op{ops}
	return sc
}
