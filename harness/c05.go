package main

import (
	"fmt"
	"os"
	"strings"
	"time"

	"github.com/anishathalye/porcupine"
	"github.com/go-openapi/spec"
	rt "verif.local/rt"
)

// C05: any number of goroutines may validate at the same time; each call returns exactly what it returns when run
// alone; no execution contains a data race; the package-level option behaves like an atomic register.

func hasRef(text string) bool { return strings.Contains(text, "$ref") }

func genC05(seed uint64, withSpec bool) *Scenario {
	r := NewRand(seed)
	g := &Gen{r: r}
	sc := &Scenario{Property: "C05", GenSeed: seed, Seed: r.U64(), Pool: swarmPool(r), Sched: swarmSched(r)}
	// pool drops/clears only make cross-task reuse rarer
	if r.Chance(700) {
		sc.Pool.DropPM, sc.Pool.ClearPM, sc.Pool.MissPM = 0, 0, 0
	}
	// a third of the runs: every task gets back its own objects only (no pool hand-overs between tasks, hence no
	// happens-before edges from the pool that could order a race on other shared state away)
	sc.Pool.Affinity = r.Chance(330)
	ntasks := pick(r, []int{2, 2, 2, 3, 3, 4, 4, 6, 8})
	big := r.Chance(25)
	if big {
		ntasks = pick(r, []int{16, 32, 64})
	}
	v := newVocab(g, r.Range(2, 4), 2, 1, 2)
	// $ref-free schemas only where an object is shared between goroutines
	var refFree []vocSchema
	for _, vs := range v.schemas {
		if !hasRef(vs.text) {
			refFree = append(refFree, vs)
		}
	}
	if len(refFree) == 0 {
		m := g.Schema(2)
		refFree = append(refFree, vocSchema{text: js(m), m: m, instances: []string{js(g.Instance(m, 0, true)), js(g.Instance(m, 0, false))}})
	}
	nshared := r.Intn(3)
	var sharedVS []vocSchema
	for i := 0; i < nshared; i++ {
		vs := pick(r, refFree)
		sc.Shared = append(sc.Shared, vs.text)
		sharedVS = append(sharedVS, vs)
	}
	// shared long-lived validators (non-recycling)
	type llv struct {
		insts []string
		tvals []*TypedVal
	}
	var lls []llv
	for i := 0; i < r.Intn(3); i++ {
		if r.Chance(650) {
			vs := pick(r, refFree)
			sc.LL = append(sc.LL, &LLValidator{Kind: "schema", Schema: vs.text})
			lls = append(lls, llv{insts: vs.instances})
		} else if r.Chance(600) {
			p := pick(r, v.params)
			l := llv{}
			for k := 0; k < 3; k++ {
				l.tvals = append(l.tvals, g.TypedFor(p, r.Chance(600)))
			}
			sc.LL = append(sc.LL, &LLValidator{Kind: "param", Schema: js(p)})
			lls = append(lls, l)
		} else {
			h := pick(r, v.headers)
			l := llv{}
			for k := 0; k < 3; k++ {
				l.tvals = append(l.tvals, g.TypedFor(h, r.Chance(600)))
			}
			sc.LL = append(sc.LL, &LLValidator{Kind: "header", Schema: js(h), Path: "X-Shared"})
			lls = append(lls, l)
		}
	}
	if withSpec && r.Chance(600) {
		// bias towards the schedule that exposes use-after-release: right after a task released an object, let
		// somebody else run, re-borrow it (LIFO) and overwrite it, then come back
		sc.Sched.Kind, sc.Sched.ChasePM = rt.SchedChaser, 600
		sc.Pool.Mode, sc.Pool.Affinity = rt.PoolLIFO, false
	}
	coeRun := r.Chance(300) // runs exercising the package-level option setter
	deepPair := withSpec && r.Chance(300)
	nspecTasks := 2
	if deepPair {
		// several whole-spec validations of deeply nested documents in near lockstep: their walkers overlap
		nspecTasks = 3
		if ntasks < nspecTasks+1 {
			ntasks = nspecTasks + 1
		}
		sc.Sched.Kind = pick(r, []int{rt.SchedRoundRobin, rt.SchedRoundRobin, rt.SchedRandom})
		sc.Sched.SwitchPM = 500
	}
	uid := uint32(0)
	bp := func(b bool) *bool { return &b }
	// swarm knob: more distinct patterns than any plausible bound of the regexp cache (eviction paths of a bounded cache)
	flood := 0
	if !big && !withSpec && r.Chance(50) {
		flood = pick(r, []int{80, 150, 300})
	}
	for t := 0; t < ntasks; t++ {
		var ops []Op
		if flood > 0 && t < 2 {
			for i := 0; i < flood/2; i++ {
				uid++
				ops = append(ops, Op{UID: uid, Kind: KPattern, Path: "p", Pattern: fmt.Sprintf("^x{%d}y%d$", i%7+1, i*2+t), Str: "xy1", Role: "fill"})
			}
		}
		nops := r.Range(1, 4)
		if big {
			nops = 1
		}
		specTask := withSpec && t < nspecTasks
		if specTask {
			nops = 1
		}
		intruder := !big && !specTask && t == ntasks-1 && (r.Chance(500) || withSpec)
		if intruder {
			nops = r.Range(4, 10)
			if withSpec {
				nops = r.Range(10, 25) // a whole-spec validation is thousands of steps long
			}
		}
		for i := 0; i < nops; i++ {
			uid++
			var op Op
			switch x := r.Intn(100); {
			case specTask:
				// concurrent whole-spec validations: what one of them counts or limits must not add up with the other's
				deepDocsPM = 30
				if deepPair {
					deepDocsPM = 1000
				}
				op = specOp(r)
				deepDocsPM = 30
				if deepPair {
					t := true
					op = Op{Kind: KSpec, Doc: js(GenDeepSpec(r)), COE: &t, OrderSeed: orderSeedFor(r)}
				}
				op.FromFile, op.ReuseSV = false, false
				op.SharedMeta = false // a schema object shared between goroutines must not contain unexpanded $ref (outside C05)
				if op.Kind == KSpecOne && coeRun {
					op.Kind = KSpec
				}
			case intruder:
				// many tiny recycling validations: they borrow (and overwrite) whatever was just released
				op = Op{Kind: KAgainst, Schema: pick(r, []string{`{"type":"integer","maximum":3}`, `{"type":"string","minLength":2}`, `{"required":["a"]}`, `{"enum":[1,"a"]}`}),
					Data: pick(r, []string{"5", `"a"`, "{}", "1"}), Role: "intruder"}
			case coeRun && x < 35:
				op = Op{Kind: KSetCOE, COE: bp(r.Chance(500))}
			case coeRun && x < 70:
				op = Op{Kind: KNewSpecVal}
			case x < 40:
				op = v.schemaOp(g, []string{KAgainst, KAgainst, KSchemaRec, KSchemaNR})
			case x < 52 && len(sharedVS) > 0:
				si := r.Intn(len(sharedVS))
				op = Op{Kind: KAgainst, Shared: si + 1, Schema: sharedVS[si].text, Data: pick(r, sharedVS[si].instances), OrderSeed: orderSeedFor(r)}
			case x < 68 && len(lls) > 0:
				li := r.Intn(len(lls))
				switch sc.LL[li].Kind {
				case "schema":
					op = Op{Kind: KLLSchema, LL: li, Data: pick(r, lls[li].insts), OrderSeed: orderSeedFor(r)}
				case "param":
					op = Op{Kind: KLLParam, LL: li, TVal: pick(r, lls[li].tvals), OrderSeed: orderSeedFor(r)}
				default:
					op = Op{Kind: KLLHeader, LL: li, TVal: pick(r, lls[li].tvals), OrderSeed: orderSeedFor(r)}
				}
			case x < 80:
				op = v.paramOp(g, 750)
			case x < 88:
				op = Op{Kind: KPattern, Path: "p", Pattern: pick(r, c15Patterns), Str: pick(r, c15Subjects)}
			case x < 94:
				op = Op{Kind: KEnum, Path: "e", Schema: js([]any{pick(r, numSamples), pick(r, strSamples), nil}), Data: js(pick(r, numSamples))}
			default:
				f := pick(r, fmtNames)
				op = Op{Kind: KFormatOf, Path: "f", Pattern: f, Str: pick(r, fmtSamples[f])}
			}
			op.UID = uid
			ops = append(ops, op)
		}
		sc.Tasks = append(sc.Tasks, ops)
	}
	return sc
}

// register model for porcupine: Set(v) / Get() -> v
type regIn struct {
	set bool
	v   bool
}

var regModel = porcupine.Model{
	Init: func() interface{} { return false },
	Step: func(state, input, output interface{}) (bool, interface{}) {
		in := input.(regIn)
		if in.set {
			return true, in.v
		}
		return output.(bool) == state.(bool), state
	},
	Equal: func(a, b interface{}) bool { return a.(bool) == b.(bool) },
	DescribeOperation: func(input, output interface{}) string {
		in := input.(regIn)
		if in.set {
			return fmt.Sprintf("SetContinueOnErrors(%v)", in.v)
		}
		return fmt.Sprintf("NewSpecValidator captured %v", output)
	},
}

func runC05(sc *Scenario, keepLog bool) *RunReport {
	rep := &RunReport{}
	// what every operation returns when run alone (computed first, on this goroutine, with fresh objects, from the
	// initial process-wide state: the previous run may have left the package-level option changed)
	resetForRun()
	solo := soloOutcomes(sc, sharedHistoryOracle)
	sim := newSimFor(sc, keepLog) // resets the process-wide state: the run starts like a fresh process
	defer rt.Install(nil)
	rt.ResetStamp()
	env := &Env{}
	if len(sc.LL) > 0 {
		if err := env.BuildLL(sc.LL, &rt.OpCtx{UID: 0xfffffff0}); err != nil {
			rep.HarnessErr = err.Error()
			return rep
		}
	}
	var shared []*spec.Schema
	for _, text := range sc.Shared {
		s, err := parseSchema(text)
		if err != nil {
			rep.HarnessErr = err.Error()
			return rep
		}
		shared = append(shared, s)
	}
	// (wall-clock watchdog against a task that never comes back: generous, whole-specification validations of deeply
	// nested documents under the race detector take tens of seconds on a loaded machine)
	cr := runConcurrentShared(sc, sim, env.LL, shared, 1800*time.Second)
	if cr.Run.Stuck {
		rep.HarnessErr = "watchdog: a task did not come back to the controller"
		return rep
	}
	for _, p := range cr.Run.TaskPanic {
		rep.HarnessErr = "task panicked outside an operation: " + p
		return rep
	}
	if cr.Run.Deadlock {
		rep.Violations = append(rep.Violations, Violation{Property: "C05", Class: "deadlock", Site: "all tasks blocked",
			Detail: "all unfinished tasks are blocked on a mutex of package validate: some call never returns"})
	}
	raceViolations("C05", cr, rep)
	rep.probe("hb-token-table-overflow (objects sharing the fallback token: races may be missed)", int(cr.TokOverflow))
	var kinds []string
	var hist []porcupine.Operation
	for ti := range sc.Tasks {
		for i := range sc.Tasks[ti] {
			op := &sc.Tasks[ti][i]
			kinds = append(kinds, op.Kind)
			rep.Ops++
			if i >= len(cr.Outs[ti]) {
				continue
			}
			got := cr.Outs[ti][i]
			want := solo[ti][i]
			switch op.Kind {
			case KSetCOE:
				hist = append(hist, porcupine.Operation{ClientId: ti, Input: regIn{set: true, v: *op.COE}, Call: int64(cr.Stamps[ti][i][0]), Output: true, Return: int64(cr.Stamps[ti][i][1])})
				continue
			case KNewSpecVal:
				hist = append(hist, porcupine.Operation{ClientId: ti, Input: regIn{}, Call: int64(cr.Stamps[ti][i][0]), Output: strings.Contains(got.Extra, "captured_coe=true"), Return: int64(cr.Stamps[ti][i][1])})
				continue
			}
			if want.Panic != "" {
				rep.Excluded++ // the library panics on this input even alone: an input-only matter
				continue
			}
			wk, gk := want.Key(), got.Key()
			if op.Kind == KSpec {
				// the option a spec validator captured depends on concurrent setters: checked by the register history instead
				wk, gk = stripCaptured(wk), stripCaptured(gk)
			}
			if (op.Kind == KSpecOne || (op.Kind == KSpec && op.COE == nil)) && hasSetter(sc) {
				// which package default this validation ran under depends on the concurrent setters: its outcome must be
				// the solo outcome under one of the two settings
				a := stripCaptured(sharedHistoryOracle.get(op, sc.LL, "coe=false").Key())
				b := stripCaptured(sharedHistoryOracle.get(op, sc.LL, "coe=true").Key())
				rep.probe("spec-outcome-checked-against-both-settings", 1)
				if gk != a && gk != b {
					rep.Violations = append(rep.Violations, Violation{Property: "C05", Class: "outcome-mismatch", OpUID: op.UID, OpKind: op.Kind, Site: "neither-setting",
						Expected: a + "\n--- or ---\n" + b, Got: gk,
						Detail: fmt.Sprintf("task %d op #%d (%s) returned what it returns alone under neither continue-on-errors setting", ti, i, op.brief())})
				}
				continue
			}
			if gk != wk {
				rep.Violations = append(rep.Violations, Violation{Property: "C05", Class: "outcome-mismatch", OpUID: op.UID, OpKind: op.Kind, Site: mismatchSite(want, got),
					Expected: wk, Got: gk,
					Detail: fmt.Sprintf("task %d op #%d (%s) returned something else than when run alone", ti, i, op.brief())})
			}
		}
	}
	if len(hist) > 0 {
		res := porcupine.CheckOperationsTimeout(regModel, hist, 10*time.Second)
		switch res {
		case porcupine.Illegal:
			var b strings.Builder
			for _, h := range hist {
				fmt.Fprintf(&b, "client %d [%d,%d] %s\n", h.ClientId, h.Call, h.Return, regModel.DescribeOperation(h.Input, h.Output))
			}
			rep.Violations = append(rep.Violations, Violation{Property: "C05", Class: "not-linearizable", Site: "continue-on-errors register",
				Expected: "the history of SetContinueOnErrors / captured defaults is linearizable against a boolean register", Got: b.String(),
				Detail: "package-level option: a new spec validator captured a value no linearisation of the concurrent setters explains"})
		case porcupine.Unknown:
			rep.probe("linearizability-inconclusive", 1)
		default:
			rep.probe("linearizability-checked", 1)
		}
	}
	rep.probe("double-put", int(sim.Stats.DoublePuts))
	rep.probe("dual-owner", int(sim.Stats.DualOwner))
	rep.NonTrivial = sim.Stats.Switches > 0
	finishReport(rep, sim, kinds)
	return rep
}

func stripCaptured(k string) string {
	if i := strings.Index(k, "captured_coe="); i >= 0 {
		j := strings.Index(k[i:], " ")
		if j > 0 {
			return k[:i] + k[i+j:]
		}
	}
	return k
}

func hasSetter(sc *Scenario) bool {
	for _, t := range sc.Tasks {
		for i := range t {
			if t[i].Kind == KSetCOE {
				return true
			}
		}
	}
	return false
}

func init() {
	register(&Prop{
		ID: "C05", Level: "exploration", Race: true,
		Gen: func(seed uint64, tier string, idx int) *Scenario {
			withSpec := idx%97 == 5
			if tier == "thorough" {
				withSpec = idx%29 == 5
			}
			if os.Getenv("VERIF_C05_SPEC_ALWAYS") != "" {
				withSpec = true // development knob
			}
			return genC05(mixSeed(seed, uint64(idx)), withSpec)
		},
		Run:       runC05,
		QuickRuns: 4500, ThoroughS: 1500,
		Rule: "one run = 2..8 (occasionally 16..64) simulated caller goroutines, each a short list of calls: AgainstSchema on own or shared $ref-free schemas, a shared long-lived non-recycling validator, recycling param/header validators, value helpers, SetContinueOnErrors / NewSpecValidator, whole-spec validation of distinct documents, " +
			"plus an intruder task of tiny recycling validations; seeded schedule (random / priority / chaser / round-robin) with scheduling points at every pool, mutex and atomic operation of package validate, seeded simulated pool shared by all tasks; built with -race; " +
			"invariants: no data race with a go-openapi frame, every outcome equals the solo outcome, the option history is linearizable (porcupine). non-trivial = at least one context switch; distinct = distinct (operation kinds, recycling edges, switch sites)",
		Real: commonReal,
		Stub: append(append([]string{}, commonStub...), "sync.Mutex / sync.Locker / atomic / sync.Map / sync.Once / channel operations of package validate -> scheduling point, then the real operation (mutex: TryLock loop; channels: non-blocking retries); sync.Cond -> ticket emulation (Wait releases L and is blocked until notified)", "goroutine scheduling -> baton scheduler (one runnable task at a time, seeded choice; invisible to the race detector)"),
		Assume: []string{
			"preemption only at synchronisation points of package validate (complete for race-free executions; racy ones are reported by the race detector)",
			"a race is only reported if its two accesses fall within the race detector's history window (about 16K release operations of the first thread)",
			"the simulated pool provides exactly sync.Pool's Put->Get happens-before edge and no other",
		},
		FaultKind: []string{"context-switches", "pool-cross-task-object", "mutex-contended"},
	})
}
