package main

import (
	"bytes"
	"encoding/json"
	"fmt"
	"io"
	"os"
	"os/exec"
	"time"

	rt "verif.local/rt"
)

// The strongest form of "what this call returns alone in a fresh process": actually a fresh process. The in-process
// oracle (fresh pooled objects, reset of the package's known globals) cannot see state that a change hides in a place it
// does not know about (a new package-level cache, a memo keyed too coarsely, ...). A sample of operations is therefore
// also executed by a child process that has done nothing else.

type freshReq struct {
	Ops []Op           `json:"ops"`
	LL  []*LLValidator `json:"ll,omitempty"`
}

// freshOutcomes runs every op alone-in-a-fresh-process (one child process per call, ops executed in order, each with
// fresh objects; process-wide state is reset between them).
func freshOutcomes(ops []Op, ll []*LLValidator) ([]Outcome, error) {
	self, err := os.Executable()
	if err != nil {
		return nil, err
	}
	in, _ := json.Marshal(freshReq{Ops: ops, LL: ll})
	cmd := exec.Command(self, "fresh")
	cmd.Stdin = bytes.NewReader(in)
	var out, errb bytes.Buffer
	cmd.Stdout = &out
	cmd.Stderr = &errb
	cmd.Env = append(os.Environ(), "GORACE=halt_on_error=0 exitcode=0")
	if err := cmd.Start(); err != nil {
		return nil, err
	}
	done := make(chan error, 1)
	go func() { done <- cmd.Wait() }()
	select {
	case err := <-done:
		if err != nil {
			return nil, fmt.Errorf("fresh-process oracle failed: %v\n%s", err, tail(errb.String(), 1500))
		}
	case <-time.After(20 * time.Minute):
		_ = cmd.Process.Kill()
		return nil, fmt.Errorf("fresh-process oracle timed out")
	}
	var res []Outcome
	if err := json.Unmarshal(lastJSONLine(out.Bytes()), &res); err != nil {
		return nil, fmt.Errorf("fresh-process oracle output: %v: %s", err, tail(out.String(), 500))
	}
	if len(res) != len(ops) {
		return nil, fmt.Errorf("fresh-process oracle returned %d outcomes for %d operations", len(res), len(ops))
	}
	return res, nil
}

// freshMain is the child: reads the request on stdin, prints the outcomes as one JSON line.
func freshMain() {
	b, err := io.ReadAll(os.Stdin)
	if err != nil {
		die2("%v", err)
	}
	var req freshReq
	if err := json.Unmarshal(b, &req); err != nil {
		die2("%v", err)
	}
	outs := make([]Outcome, 0, len(req.Ops))
	for i := range req.Ops {
		sc := &Scenario{Seed: 1}
		sim := newSimFor(sc, false)
		_ = sim
		outs = append(outs, computeOracle(&req.Ops[i], req.LL, "fresh"))
		rt.Install(nil)
	}
	o, _ := json.Marshal(outs)
	fmt.Println(string(o))
}
