package main

import (
	"encoding/json"
	"flag"
	"fmt"
	"github.com/go-openapi/validate"
	"os"
	"runtime"
	"runtime/debug"
	"sort"
	"strconv"
	"strings"
	"time"
)

// exit codes: 0 held, 1 violation (VIOLATION line printed), 2 build / watchdog / determinism / harness trouble
func die2(format string, a ...any) {
	fmt.Fprintf(os.Stderr, "HARNESS-ERROR: "+format+"\n", a...)
	os.Exit(2)
}

func main() {
	validate.VerifInit()        // snapshot of the package's initial state (after its init functions, before any use)
	debug.SetMaxStack(48 << 20) // runaway recursion (e.g. a validator that ends up containing itself) fails fast
	if len(os.Args) < 2 {
		die2("usage: sim worker|check|replay|gen|detlog ...")
	}
	switch os.Args[1] {
	case "worker":
		workerMain(os.Args[2:])
	case "check":
		checkMain(os.Args[2:])
	case "replay":
		replayMain(os.Args[2:])
	case "gen":
		genMain(os.Args[2:])
	case "detlog":
		detlogMain(os.Args[2:])
	case "fresh":
		freshMain()
	default:
		die2("unknown command %q", os.Args[1])
	}
}

func envSeed() uint64 {
	if s := os.Getenv("VERIF_SEED"); s != "" {
		if v, err := strconv.ParseUint(s, 10, 64); err == nil {
			return v
		}
		if v, err := strconv.ParseInt(s, 10, 64); err == nil {
			return uint64(v)
		}
	}
	return 1
}

// ---- worker ----

type FoundViolation struct {
	Scenario  *Scenario `json:"scenario"`
	Violation Violation `json:"violation"`
	EventHash uint64    `json:"event_hash"`
	Idx       int       `json:"idx"`
	History   []int     `json:"history,omitempty"` // indices this worker process had executed before
}

type WorkerResult struct {
	Prop        string            `json:"prop"`
	Runs        int               `json:"runs"`
	NonTrivial  int               `json:"non_trivial"`
	Ops         int               `json:"ops"`
	Excluded    int               `json:"excluded"`
	Steps       uint64            `json:"steps"`
	Stats       map[string]uint64 `json:"stats"`
	Edges       map[string]int    `json:"edges"`
	Signatures  []uint64          `json:"signatures"`
	Faults      map[string]int    `json:"faults"`
	Probes      map[string]int    `json:"probes"`
	Violations  []FoundViolation  `json:"violations"`
	HarnessErrs []string          `json:"harness_errs"`
	Samples     []json.RawMessage `json:"samples"`
	WallS       float64           `json:"wall_s"`
	NextIdx     int               `json:"next_idx"` // first index not executed (a race worker stops at its first report)
	Stopped     string            `json:"stopped,omitempty"`
	HashXor     uint64            `json:"hash_xor"` // xor of (idx-mixed) event hashes: determinism self-test
	CrashIdx    int               `json:"crash_idx,omitempty"`
	CrashMsg    string            `json:"crash_msg,omitempty"`
}

func statsMap(s any) map[string]uint64 {
	b, _ := json.Marshal(s)
	m := map[string]uint64{}
	_ = json.Unmarshal(b, &m)
	return m
}

func workerMain(args []string) {
	fs := flag.NewFlagSet("worker", flag.ExitOnError)
	propID := fs.String("prop", "", "property id")
	tier := fs.String("tier", "quick", "tier")
	seed := fs.Uint64("seed", 1, "base seed")
	offset := fs.Int("offset", 0, "first run index")
	stride := fs.Int("stride", 1, "index stride")
	max := fs.Int("max", 1, "maximum number of runs")
	budget := fs.Float64("budget", 0, "time budget in seconds (0 = none)")
	_ = fs.Parse(args)
	p := props[*propID]
	if p == nil {
		die2("unknown property %q", *propID)
	}
	res := runWorker(p, *tier, *seed, *offset, *stride, *max, *budget)
	b, _ := json.Marshal(res)
	os.Stdout.Write(b)
	os.Stdout.Write([]byte("\n"))
	if len(res.HarnessErrs) > 0 {
		os.Exit(2)
	}
}

func runWorker(p *Prop, tier string, seed uint64, offset, stride, max int, budget float64) *WorkerResult {
	start := time.Now()
	res := &WorkerResult{Prop: p.ID, Stats: map[string]uint64{}, Edges: map[string]int{}, Faults: map[string]int{}, Probes: map[string]int{}}
	sigs := map[uint64]struct{}{}
	seenViol := map[string]int{}
	var history []int
	idx := offset
	for n := 0; n < max; n++ {
		if budget > 0 && time.Since(start).Seconds() > budget {
			res.Stopped = "budget"
			break
		}
		fmt.Fprintf(os.Stderr, "RUN %d\n", idx) // a crashed worker is diagnosed from its last RUN line
		genTier = tier
		sc := p.Gen(seed, tier, idx)
		rep := p.Run(sc, false)
		res.Runs++
		res.Ops += rep.Ops
		res.Excluded += rep.Excluded
		res.Steps += rep.Steps
		res.HashXor ^= mixSeed(rep.EventHash, uint64(idx))
		for k, v := range statsMap(rep.Stats) {
			res.Stats[k] += v
		}
		for e, c := range rep.Edges {
			res.Edges[e] += c
		}
		for k, v := range rep.Faults {
			res.Faults[k] += v
		}
		for k, v := range rep.Probes {
			res.Probes[k] += v
		}
		if rep.NonTrivial {
			res.NonTrivial++
			sigs[rep.Signature] = struct{}{}
		}
		if rep.HarnessErr != "" {
			res.HarnessErrs = append(res.HarnessErrs, fmt.Sprintf("run %d: %s", idx, rep.HarnessErr))
			if len(res.HarnessErrs) > 5 || strings.Contains(rep.HarnessErr, "watchdog") {
				break // a stuck task goroutine is still out there: this process is of no further use
			}
		}
		if len(res.Samples) < 2 && rep.NonTrivial && (idx/stride)%7 == 3 {
			res.Samples = append(res.Samples, sampleOf(sc, rep))
		}
		stop := false
		for _, v := range rep.Violations {
			s := v.Sig()
			seenViol[s]++
			if seenViol[s] <= 2 && len(res.Violations) < 12 {
				res.Violations = append(res.Violations, FoundViolation{Scenario: sc, Violation: v, EventHash: rep.EventHash, Idx: idx, History: append([]int(nil), history...)})
			}
			if p.Race && v.Class == "data-race" {
				stop = true // the race detector de-duplicates per process: continue in a fresh one
			}
		}
		history = append(history, idx)
		idx += stride
		if stop {
			res.Stopped = "race"
			break
		}
	}
	res.NextIdx = idx
	for s := range sigs {
		res.Signatures = append(res.Signatures, s)
	}
	sort.Slice(res.Signatures, func(i, j int) bool { return res.Signatures[i] < res.Signatures[j] })
	res.WallS = time.Since(start).Seconds()
	return res
}

// sampleOf renders a run compactly for the evidence file.
func sampleOf(sc *Scenario, rep *RunReport) json.RawMessage {
	type sop struct {
		Task int    `json:"task"`
		Op   string `json:"op"`
	}
	var ops []sop
	for ti, t := range sc.Tasks {
		for i := range t {
			if len(ops) >= 12 {
				break
			}
			ops = append(ops, sop{Task: ti, Op: t[i].brief()})
		}
	}
	m := map[string]any{
		"gen_seed": sc.GenSeed, "run_seed": sc.Seed, "pool_policy": sc.Pool, "sched_policy": sc.Sched,
		"n_ops": sc.NumOps(), "first_ops": ops,
		"recycled_borrows": rep.Stats.Recycled, "foreign_recycles": rep.Stats.ForeignRecycles,
		"switches": rep.Stats.Switches, "event_hash": fmt.Sprintf("%016x", rep.EventHash), "violations": len(rep.Violations),
	}
	if sc.Results != nil {
		m["result_steps"] = sc.Results.brief(12)
	}
	b, _ := json.Marshal(m)
	return b
}

// ---- replay ----

func replayMain(args []string) {
	fs := flag.NewFlagSet("replay", flag.ExitOnError)
	file := fs.String("file", "", "scenario file")
	trace := fs.Bool("trace", false, "print the event log")
	quiet := fs.Bool("quiet", false, "machine-readable output only")
	_ = fs.Parse(args)
	sc, err := readScenario(*file)
	if err != nil {
		die2("%v", err)
	}
	p := props[sc.Property]
	if p == nil {
		die2("scenario for unknown property %q", sc.Property)
	}
	if sc.Expect != nil && sc.Expect.Class == "no-return" && !*quiet {
		// the recorded violation is that this history does not come to an end: give it the same limit, then say so
		done := make(chan *RunReport, 1)
		go func() { done <- runScenario(p, sc, false) }()
		select {
		case r := <-done:
			fmt.Printf("replay: the history finished (%d violations): the recorded violation did not reproduce\n", len(r.Violations))
			os.Exit(0)
		case <-time.After(stallLimit):
			fmt.Printf("replay: violation class=no-return: the history has not finished after %v\n  %s\n", stallLimit, sc.Expect.Detail)
			fmt.Printf("VIOLATION property=%s replay=%s\n", sc.Property, *file)
			os.Exit(1)
		}
	}
	rep := runScenario(p, sc, *trace)
	if sc.Expect != nil && sc.Expect.Class == "data-race" && !*quiet {
		// the execution is identical every time; whether the race detector can still restore the older access's stack
		// is not: give it a few executions (reports are only de-duplicated once made)
		for a := 0; a < 12 && len(rep.Violations) == 0 && rep.HarnessErr == ""; a++ {
			rep = p.Run(sc, *trace)
		}
	}
	out := map[string]any{"event_hash": fmt.Sprintf("%016x", rep.EventHash), "violations": rep.Violations, "harness_err": rep.HarnessErr}
	b, _ := json.Marshal(out)
	fmt.Println("REPLAY-RESULT " + string(b))
	if *trace {
		for _, l := range rep.Log {
			fmt.Println("  " + l)
		}
	}
	if rep.HarnessErr != "" {
		die2("%s", rep.HarnessErr)
	}
	if len(rep.Violations) == 0 {
		if !*quiet {
			fmt.Println("replay: no violation")
		}
		os.Exit(0)
	}
	for _, v := range rep.Violations {
		if !*quiet {
			fmt.Printf("replay: violation class=%s op=%s site=%s\n  %s\n--- expected\n%s\n--- got\n%s\n", v.Class, v.OpKind, v.Site, v.Detail, v.Expected, v.Got)
		}
	}
	if sc.Expect != nil {
		same := false
		for _, v := range rep.Violations {
			if v.Sig() == sc.Expect.Sig() {
				same = true
			}
		}
		if same && sc.Hash != "" && sc.Hash != fmt.Sprintf("%016x", rep.EventHash) && !*quiet {
			fmt.Printf("replay: same violation, but event log hash differs (recorded %s, now %016x)\n", sc.Hash, rep.EventHash)
		}
	}
	fmt.Printf("VIOLATION property=%s replay=%s\n", sc.Property, *file)
	os.Exit(1)
}

func genMain(args []string) {
	fs := flag.NewFlagSet("gen", flag.ExitOnError)
	propID := fs.String("prop", "", "property id")
	tier := fs.String("tier", "quick", "tier")
	seed := fs.Uint64("seed", 1, "base seed")
	idx := fs.Int("idx", 0, "run index")
	_ = fs.Parse(args)
	p := props[*propID]
	if p == nil {
		die2("unknown property")
	}
	genTier = *tier
	sc := p.Gen(*seed, *tier, *idx)
	b, _ := json.MarshalIndent(sc, "", " ")
	fmt.Println(string(b))
}

// detlog prints one line per run: index, event hash, violation count — diffed across processes by the determinism self-test.
func detlogMain(args []string) {
	fs := flag.NewFlagSet("detlog", flag.ExitOnError)
	propID := fs.String("prop", "", "property id")
	tier := fs.String("tier", "quick", "tier")
	seed := fs.Uint64("seed", 1, "base seed")
	from := fs.Int("from", 0, "first index")
	n := fs.Int("n", 10, "runs")
	_ = fs.Parse(args)
	p := props[*propID]
	if p == nil {
		die2("unknown property")
	}
	fmt.Printf("# GOMAXPROCS=%d\n", runtime.GOMAXPROCS(0))
	genTier = *tier
	for i := *from; i < *from+*n; i++ {
		sc := p.Gen(*seed, *tier, i)
		rep := p.Run(sc, false)
		vs := ""
		for _, v := range rep.Violations {
			vs += " " + v.Sig()
		}
		fmt.Printf("%d %016x ops=%d steps=%d viol=%d%s %s\n", i, rep.EventHash, rep.Ops, rep.Steps, len(rep.Violations), vs, rep.HarnessErr)
	}
}
