package main

import (
	"bytes"
	"encoding/json"
	"fmt"
	"hash/fnv"
	"os"
	"path/filepath"
	"reflect"
	"sort"
	"strings"

	oaerrors "github.com/go-openapi/errors"
	"github.com/go-openapi/loads"
	"github.com/go-openapi/spec"
	"github.com/go-openapi/strfmt"
	"github.com/go-openapi/validate"
	rt "verif.local/rt"
)

// Operation kinds. All go through the public API of go-openapi/validate.
const (
	KAgainst    = "against"       // AgainstSchema(schema, data, registry)
	KSchemaRec  = "schema_rec"    // NewSchemaValidator(..., WithRecycleValidators(true)).Validate(data), used once
	KSchemaNR   = "schema_nr"     // NewSchemaValidator(...).Validate(data), not recycling (still draws pooled results)
	KParam      = "param"         // NewParamValidator(param, registry[, recycle]).Validate(typed value)
	KHeader     = "header"        // NewHeaderValidator(name, header, registry[, recycle]).Validate(typed value)
	KSpec       = "spec"          // NewSpecValidator(doc.Schema(), registry) [+SetContinueOnErrors] .Validate(doc)
	KSpecOne    = "spec_one"      // validate.Spec(doc, registry) (package defaults)
	KSetCOE     = "set_coe"       // validate.SetContinueOnErrors(v)
	KPattern    = "pattern"       // validate.Pattern(path, in, data, pattern)
	KEnum       = "enum"          // validate.Enum(path, in, data, enum)
	KFormatOf   = "formatof"      // validate.FormatOf(path, in, format, data, registry)
	KLLSchema   = "ll_schema"     // long-lived non-recycling schema validator #LL .Validate(data)
	KLLParam    = "ll_param"      // long-lived param validator #LL .Validate(typed value)
	KLLHeader   = "ll_header"     // long-lived header validator #LL .Validate(typed value)
	KFlood      = "pattern_flood" // LL distinct valid patterns (prefix Str) through validate.Pattern: more than any plausible bound of the regexp cache
	KNewSpecVal = "new_specval"   // NewSpecValidator only: captures the package defaults (C05 register history)
)

var kindNums = map[string]uint16{
	KAgainst: 1, KSchemaRec: 2, KSchemaNR: 3, KParam: 4, KHeader: 5, KSpec: 6, KSpecOne: 7, KSetCOE: 8,
	KPattern: 9, KEnum: 10, KFormatOf: 11, KLLSchema: 12, KLLParam: 13, KLLHeader: 14, KNewSpecVal: 15, KFlood: 17,
}

var kindNames = func() map[uint16]string {
	m := map[uint16]string{0: "none"}
	for k, v := range kindNums {
		m[v] = k
	}
	return m
}()

// TypedVal is a Go value of a definite type: T is e.g. "int32", "[]string", "[][]float64", "nil", "json" (plain decoded JSON).
type TypedVal struct {
	T string `json:"t"`
	J string `json:"j"`
}

// Fault plan of an operation (C11).
type Fault struct {
	Kind string `json:"kind"` // "checker-panic": the registry panics at the K-th Validates/ContainsName call
	K    int    `json:"k"`
}

type Op struct {
	UID          uint32    `json:"uid"`
	Kind         string    `json:"kind"`
	Schema       string    `json:"schema,omitempty"` // schema / parameter / header JSON
	Data         string    `json:"data,omitempty"`   // instance JSON
	UseNumber    bool      `json:"use_number,omitempty"`
	TVal         *TypedVal `json:"tval,omitempty"`
	Recycle      bool      `json:"recycle,omitempty"`
	Swagger      bool      `json:"swagger,omitempty"`       // SwaggerSchema(true) option
	Path         string    `json:"path,omitempty"`          // root path / name
	Doc          string    `json:"doc,omitempty"`           // spec document: "@<corpus id>" or inline JSON
	COE          *bool     `json:"coe,omitempty"`           // SetContinueOnErrors on the spec validator / the value for set_coe
	YAML         bool      `json:"yaml,omitempty"`          // feed the document as YAML-converted bytes
	Reorder      bool      `json:"reorder,omitempty"`       // feed the document with all object members in reverse order
	SharedMeta   bool      `json:"shared_meta,omitempty"`   // hand the spec validator the one Swagger meta-schema object of this run (expanded in place by earlier validations, as a caller keeping one schema around would have it) instead of the document's own fresh copy
	ReuseSV      bool      `json:"reuse_sv,omitempty"`      // validate with the run's one long-lived SpecValidator object (created at its first use) instead of a new one
	FromFile     bool      `json:"from_file,omitempty"`     // the document is written to a file and loaded with loads.Spec(path): the document then has a file path, and the validator resolves $ref through its file-based branches
	ReuseSchema  bool      `json:"reuse_schema,omitempty"`  // hand the library the very *spec.Schema object an earlier operation of this run parsed from the same text (a caller keeping its schema around)
	ReuseDoc     bool      `json:"reuse_doc,omitempty"`     // validate the very *loads.Document an earlier operation of this run loaded (same bytes, same variant)
	OptMode      int       `json:"opt_mode,omitempty"`      // 2: only EnableObjectArrayTypeCheck, 3: only EnableArrayMustHaveItemsCheck
	SkipSchemata bool      `json:"skip_schemata,omitempty"` // WithSkipSchemataResult(true)
	Pattern      string    `json:"pattern,omitempty"`
	Str          string    `json:"str,omitempty"`
	LL           int       `json:"ll,omitempty"`
	Shared       int       `json:"shared,omitempty"` // 1-based index of a schema object shared between tasks (contains no $ref)
	Inv          uint64    `json:"-"`                // global event numbers at invoke / return (recorded histories)
	Ret          uint64    `json:"-"`
	OrderSeed    uint64    `json:"order_seed,omitempty"`
	Fault        *Fault    `json:"fault,omitempty"`
	Role         string    `json:"role,omitempty"` // prefix | victim | suffix | intruder ... (informational)
	// NoHash: leave the content hash of the reported schemata out of the outcome. Set for long-lived validators whose
	// schema contains $ref: the library expands references in place, lazily, by design (outside C08; see C12), so
	// the schema a long-lived validator reports legitimately changes as more of it gets expanded.
	NoHash bool `json:"no_hash,omitempty"`
}

func (o *Op) brief() string {
	s := o.Kind
	if o.Recycle {
		s += "+rec"
	}
	if o.Schema != "" {
		s += " " + trunc(o.Schema, 100)
	}
	if o.Data != "" {
		s += " <- " + trunc(o.Data, 60)
	}
	if o.TVal != nil {
		s += fmt.Sprintf(" <- %s(%s)", o.TVal.T, trunc(o.TVal.J, 40))
	}
	if o.Doc != "" {
		s += " doc=" + trunc(o.Doc, 40)
	}
	if o.COE != nil {
		s += fmt.Sprintf(" coe=%v", *o.COE)
	}
	if o.Pattern != "" {
		s += fmt.Sprintf(" /%s/ ~ %q", o.Pattern, o.Str)
	}
	if o.Fault != nil {
		s += fmt.Sprintf(" FAULT(%s@%d)", o.Fault.Kind, o.Fault.K)
	}
	return s
}

func trunc(s string, n int) string {
	if len(s) <= n {
		return s
	}
	return s[:n] + "…"
}

// Outcome of one operation, canonicalised: message sets are sorted; order is never compared (except in C20).
type Outcome struct {
	Panic    string   `json:"panic,omitempty"`
	Nil      bool     `json:"nil,omitempty"` // the call returned a nil result
	Valid    bool     `json:"valid"`
	Errors   []string `json:"errors,omitempty"`
	Warnings []string `json:"warnings,omitempty"`
	Match    int      `json:"match"`
	Extra    string   `json:"extra,omitempty"` // digest of schemata / second result / captured option
}

func (o Outcome) Key() string {
	if o.Panic != "" {
		return "PANIC " + o.Panic
	}
	var b strings.Builder
	fmt.Fprintf(&b, "nil=%v valid=%v match=%d extra=%s\nE:", o.Nil, o.Valid, o.Match, o.Extra)
	for _, e := range o.Errors {
		b.WriteString("\n  ")
		b.WriteString(e)
	}
	b.WriteString("\nW:")
	for _, e := range o.Warnings {
		b.WriteString("\n  ")
		b.WriteString(e)
	}
	return b.String()
}

// SetKey ignores match counts and digests: verdict + message sets only.
func (o Outcome) SetKey() string {
	if o.Panic != "" {
		return "PANIC " + o.Panic
	}
	return fmt.Sprintf("nil=%v valid=%v\nE:%s\nW:%s", o.Nil, o.Valid, strings.Join(o.Errors, "\n  "), strings.Join(o.Warnings, "\n  "))
}

func msgs(errs []error) []string {
	out := make([]string, 0, len(errs))
	for _, e := range errs {
		if e == nil {
			out = append(out, "<nil>")
			continue
		}
		if ce, ok := e.(oaerrors.Error); ok {
			out = append(out, fmt.Sprintf("[%d] %s", ce.Code(), e.Error()))
		} else {
			out = append(out, e.Error())
		}
	}
	sort.Strings(out)
	return out
}

func dedupSorted(in []string) []string {
	out := in[:0]
	for i, s := range in {
		if i == 0 || s != in[i-1] {
			out = append(out, s)
		}
	}
	return out
}

// decodeJSON decodes instance text; with useNumber numbers arrive as json.Number.
func decodeJSON(text string, useNumber bool) (any, error) {
	dec := json.NewDecoder(strings.NewReader(text))
	if useNumber {
		dec.UseNumber()
	}
	var v any
	if err := dec.Decode(&v); err != nil {
		return nil, err
	}
	return v, nil
}

var baseTypes = map[string]reflect.Type{
	"string": reflect.TypeOf(""), "bool": reflect.TypeOf(false),
	"int": reflect.TypeOf(int(0)), "int8": reflect.TypeOf(int8(0)), "int16": reflect.TypeOf(int16(0)), "int32": reflect.TypeOf(int32(0)), "int64": reflect.TypeOf(int64(0)),
	"uint": reflect.TypeOf(uint(0)), "uint8": reflect.TypeOf(uint8(0)), "uint16": reflect.TypeOf(uint16(0)), "uint32": reflect.TypeOf(uint32(0)), "uint64": reflect.TypeOf(uint64(0)),
	"float32": reflect.TypeOf(float32(0)), "float64": reflect.TypeOf(float64(0)),
	"any": reflect.TypeOf((*any)(nil)).Elem(),
}

// Value materialises a typed Go value.
func (tv *TypedVal) Value() (any, error) {
	if tv == nil || tv.T == "nil" {
		return nil, nil
	}
	if tv.T == "json" {
		return decodeJSON(tv.J, false)
	}
	if tv.T == "json.Number" {
		return json.Number(tv.J), nil
	}
	depth := 0
	t := tv.T
	for strings.HasPrefix(t, "[]") {
		depth++
		t = t[2:]
	}
	bt, ok := baseTypes[t]
	if !ok {
		return nil, fmt.Errorf("unknown base type %q", t)
	}
	typ := bt
	for i := 0; i < depth; i++ {
		typ = reflect.SliceOf(typ)
	}
	pv := reflect.New(typ)
	dec := json.NewDecoder(strings.NewReader(tv.J))
	if err := dec.Decode(pv.Interface()); err != nil {
		return nil, fmt.Errorf("typed value %s <- %s: %v", tv.T, tv.J, err)
	}
	return pv.Elem().Interface(), nil
}

// ---- registry wrapper: the caller-supplied format checkers, able to panic at the k-th invocation (C11) ----

type faultRegistry struct {
	strfmt.Registry
	calls   int
	panicAt int // 0 = never
	fired   bool
}

func (r *faultRegistry) hit(what, name string) {
	r.calls++
	if r.panicAt > 0 && r.calls == r.panicAt {
		r.fired = true
		panic(fmt.Sprintf("injected: format checker panic at call %d (%s %q)", r.calls, what, name))
	}
}

func (r *faultRegistry) ContainsName(name string) bool {
	r.hit("ContainsName", name)
	return r.Registry.ContainsName(name)
}

func (r *faultRegistry) Validates(name, data string) bool {
	r.hit("Validates", name)
	return r.Registry.Validates(name, data)
}

// ---- execution ----

// Env is what operations of one run share: long-lived validators, document corpus, retained results.
type Env struct {
	Shared       []*spec.Schema
	LL           []*LLValidator
	Retained     []retained // values handed to the caller earlier; re-rendered at the end of the history
	Keep         bool       // retain returned values
	LastReg      *faultRegistry
	meta         *spec.Schema            // the run's Swagger meta-schema object (operations with SharedMeta)
	sv           *validate.SpecValidator // the run's long-lived SpecValidator (operations with ReuseSV)
	svReg        *faultRegistry
	svReuses     int
	metaUses     int
	schemas      map[string]*spec.Schema // schema objects parsed by operations with ReuseSchema
	schemaReuses int
	docs         map[string]*loads.Document // documents loaded by operations with ReuseDoc
	docReuses    int
}

type retained struct {
	UID    uint32
	Render func() string
	Was    string
}

type LLValidator struct {
	Kind   string `json:"kind"` // schema | param | header
	Schema string `json:"schema"`
	Path   string `json:"path,omitempty"`
	// Faulty: the validator is built with a registry wrapper that can be told to panic at the k-th checker invocation of
	// one of its calls (C11: a long-lived validator goes on being used after a panic unwound through it)
	Faulty bool `json:"faulty,omitempty"`
	reg    *faultRegistry
	// built once per run
	sv *validate.SchemaValidator
	pv *validate.ParamValidator
	hv *validate.HeaderValidator
}

func resultOutcome(r *validate.Result, withSchemata bool) Outcome {
	return resultOutcomeH(r, withSchemata, true)
}

func resultOutcomeH(r *validate.Result, withSchemata, withHash bool) Outcome {
	if r == nil {
		return Outcome{Nil: true, Valid: true}
	}
	o := Outcome{Valid: r.IsValid(), Errors: msgs(r.Errors), Warnings: msgs(r.Warnings), Match: r.MatchCount}
	if withSchemata {
		o.Extra = schemataDigest(r, withHash)
	}
	// the data object the result says it was obtained from (Result.Data): that of this validation or none, never an earlier one's
	if d := r.Data(); d != nil {
		if b, err := json.Marshal(d); err == nil {
			o.Extra += " data=" + trunc(string(b), 60)
		} else {
			o.Extra += fmt.Sprintf(" data=(%T)", d)
		}
	}
	return o
}

func schemataDigest(r *validate.Result, withHash bool) string {
	root := r.RootObjectSchemata()
	var b strings.Builder
	fmt.Fprintf(&b, "root=%d", len(root))
	h := uint64(14695981039346656037)
	for _, s := range root {
		if s == nil || !withHash {
			continue
		}
		if bb, err := json.Marshal(s); err == nil {
			for _, c := range bb {
				h ^= uint64(c)
				h *= 1099511628211
			}
		}
	}
	// content of the schemata reported per field and per item too (a result must own what it reports: a schema that still
	// points into pooled scratch memory changes under the caller's feet)
	hashOf := func(ss []*spec.Schema) uint64 {
		x := uint64(14695981039346656037)
		for _, s := range ss {
			if s == nil {
				continue
			}
			if bb, err := json.Marshal(s); err == nil {
				for _, c := range bb {
					x ^= uint64(c)
					x *= 1099511628211
				}
			}
		}
		return x
	}
	fs := r.FieldSchemata()
	nf := 0
	fields := make([]string, 0, len(fs))
	for k, v := range fs {
		nf += len(v)
		if withHash {
			fields = append(fields, fmt.Sprintf("%s:%d:%x", k.Field(), len(v), hashOf(v)&0xffffff))
		} else {
			fields = append(fields, fmt.Sprintf("%s:%d", k.Field(), len(v)))
		}
	}
	sort.Strings(fields)
	is := r.ItemSchemata()
	ni := 0
	var ih uint64
	for _, v := range is {
		ni += len(v)
		if withHash {
			ih += hashOf(v) // (order-independent combination: the keys carry reflect values)
		}
	}
	fmt.Fprintf(&b, " h=%x fields=%d/%d[%s] items=%d/%d/%x", h, len(fs), nf, strings.Join(fields, ","), len(is), ni, ih&0xffffff)
	return b.String()
}

func errOutcome(err error) Outcome {
	if err == nil {
		return Outcome{Valid: true}
	}
	o := Outcome{Valid: false}
	if ce, ok := err.(*oaerrors.CompositeError); ok {
		o.Errors = msgs(ce.Errors)
		o.Extra = fmt.Sprintf("code=%d", ce.Code())
	} else {
		o.Errors = []string{"(non-composite) " + err.Error()}
	}
	return o
}

// schemaFor parses the schema of op, or hands out the object an earlier operation of this run parsed from the same text.
func (env *Env) schemaFor(op *Op) (*spec.Schema, error) {
	if !op.ReuseSchema {
		return parseSchema(op.Schema)
	}
	if s, ok := env.schemas[op.Schema]; ok {
		env.schemaReuses++
		return s, nil
	}
	s, err := parseSchema(op.Schema)
	if err != nil {
		return nil, err
	}
	if env.schemas == nil {
		env.schemas = map[string]*spec.Schema{}
	}
	env.schemas[op.Schema] = s
	return s, nil
}

func parseSchema(text string) (*spec.Schema, error) {
	s := new(spec.Schema)
	if err := json.Unmarshal([]byte(text), s); err != nil {
		return nil, err
	}
	return s, nil
}

func (op *Op) schemaOpts() []validate.Option {
	var opts []validate.Option
	if op.Swagger {
		opts = append(opts, validate.SwaggerSchema(true))
	}
	switch op.OptMode {
	case 2:
		opts = append(opts, validate.EnableObjectArrayTypeCheck(true))
	case 3:
		opts = append(opts, validate.EnableArrayMustHaveItemsCheck(true))
	}
	if op.SkipSchemata {
		opts = append(opts, validate.WithSkipSchemataResult(true))
	}
	return opts
}

func (op *Op) registry(env *Env) strfmt.Registry {
	if op.Fault != nil && op.Fault.Kind == "checker-panic" {
		r := &faultRegistry{Registry: strfmt.Default, panicAt: op.Fault.K}
		env.LastReg = r
		return r
	}
	if op.Fault != nil && op.Fault.Kind == "checker-count" {
		r := &faultRegistry{Registry: strfmt.Default}
		env.LastReg = r
		return r
	}
	return strfmt.Default
}

// inputError marks operations whose inputs do not even decode: generator trouble, never a verdict.
type inputError struct{ err error }

func (e inputError) Error() string { return "harness input error: " + e.err.Error() }

// Exec runs one operation under ctx and returns its canonical outcome. A panic of the library is an outcome.
func (env *Env) Exec(op *Op, ctx *rt.OpCtx) (out Outcome) {
	rt.BeginOp(ctx)
	defer rt.EndOp()
	defer func() {
		if r := recover(); r != nil {
			if ie, ok := r.(inputError); ok {
				panic(ie)
			}
			out = Outcome{Panic: fmt.Sprint(r)}
		}
	}()
	return env.exec(op)
}

func must[T any](v T, err error) T {
	if err != nil {
		panic(inputError{err})
	}
	return v
}

func (env *Env) retain(op *Op, render func() string) {
	if env.Keep {
		env.Retained = append(env.Retained, retained{UID: op.UID, Render: render, Was: render()})
	}
}

func (env *Env) exec(op *Op) Outcome {
	switch op.Kind {
	case KAgainst:
		var s *spec.Schema
		if op.Shared > 0 && op.Shared <= len(env.Shared) {
			s = env.Shared[op.Shared-1]
		} else {
			s = must(env.schemaFor(op))
		}
		d := must(decodeJSON(op.Data, op.UseNumber))
		err := validate.AgainstSchema(s, d, op.registry(env), op.schemaOpts()...)
		env.retain(op, func() string { return errOutcome(err).Key() })
		return errOutcome(err)
	case KSchemaRec, KSchemaNR:
		s := must(env.schemaFor(op))
		d := must(decodeJSON(op.Data, op.UseNumber))
		opts := op.schemaOpts()
		if op.Kind == KSchemaRec {
			opts = append(opts, validate.WithRecycleValidators(true))
		}
		r := validate.NewSchemaValidator(s, nil, op.Path, op.registry(env), opts...).Validate(d)
		env.retain(op, func() string { return resultOutcomeH(r, true, !op.NoHash).Key() })
		return resultOutcomeH(r, true, !op.NoHash)
	case KParam:
		p := new(spec.Parameter)
		must(0, json.Unmarshal([]byte(op.Schema), p))
		v := must(op.TVal.Value())
		var opts []validate.Option
		if op.Recycle {
			opts = append(opts, validate.WithRecycleValidators(true))
		}
		r := validate.NewParamValidator(p, op.registry(env), opts...).Validate(v)
		env.retain(op, func() string { return resultOutcome(r, false).Key() })
		return resultOutcome(r, false)
	case KHeader:
		h := new(spec.Header)
		must(0, json.Unmarshal([]byte(op.Schema), h))
		v := must(op.TVal.Value())
		var opts []validate.Option
		if op.Recycle {
			opts = append(opts, validate.WithRecycleValidators(true))
		}
		r := validate.NewHeaderValidator(op.Path, h, op.registry(env), opts...).Validate(v)
		env.retain(op, func() string { return resultOutcome(r, false).Key() })
		return resultOutcome(r, false)
	case KSpec:
		doc := must(env.loadDoc(op))
		meta := doc.Schema()
		if op.SharedMeta {
			if env.meta == nil || env.metaUses >= metaRenewAfter {
				env.meta, env.metaUses = spec.MustLoadSwagger20Schema(), 0
			}
			env.metaUses++
			meta = env.meta
		}
		var sv *validate.SpecValidator
		capturedTxt := ""
		if op.ReuseSV && op.COE != nil {
			// one SpecValidator object serving several validations (of one or several documents)
			if env.sv == nil {
				env.svReg = &faultRegistry{Registry: strfmt.Default}
				env.sv = validate.NewSpecValidator(meta, env.svReg)
			} else {
				env.svReuses++
			}
			env.svReg.calls, env.svReg.fired, env.svReg.panicAt = 0, false, 0
			if op.Fault != nil {
				if op.Fault.Kind == "checker-panic" {
					env.svReg.panicAt = op.Fault.K
				}
				env.LastReg = env.svReg
			}
			defer func() { env.svReg.panicAt = 0 }()
			sv = env.sv
			capturedTxt = "reused"
		} else {
			sv = validate.NewSpecValidator(meta, op.registry(env))
			capturedTxt = fmt.Sprint(sv.Options.ContinueOnErrors)
		}
		if op.COE != nil {
			sv.SetContinueOnErrors(*op.COE)
		}
		errs, warns := sv.Validate(doc)
		o := resultOutcome(errs, false)
		o.Match = 0 // match counts of a spec validation are not an observable the properties name
		// the separately returned warnings must be exactly the warnings attached to the main result (C10)
		o.Extra = fmt.Sprintf("captured_coe=%s warnings2=%s", capturedTxt, strings.Join(allMsgs(warns), " || "))
		env.retain(op, func() string {
			x := resultOutcome(errs, false)
			x.Match = 0
			return x.SetKey() + strings.Join(allMsgs(warns), " || ")
		})
		return o
	case KSpecOne:
		doc := must(env.loadDoc(op))
		err := validate.Spec(doc, op.registry(env))
		env.retain(op, func() string { return errOutcome(err).Key() })
		return errOutcome(err)
	case KNewSpecVal:
		sv := validate.NewSpecValidator(nil, strfmt.Default)
		return Outcome{Valid: true, Extra: fmt.Sprintf("captured_coe=%v", sv.Options.ContinueOnErrors)}
	case KSetCOE:
		validate.SetContinueOnErrors(*op.COE)
		return Outcome{Valid: true}
	case KFlood:
		bad := 0
		for i := 0; i < op.LL; i++ {
			subj := fmt.Sprintf("%s%dz", op.Str, i)
			if err := validate.Pattern("p", "body", subj, "^"+subj+"$"); err != nil {
				bad++
			}
		}
		if bad > 0 {
			return Outcome{Valid: false, Errors: []string{fmt.Sprintf("%d of %d distinct patterns did not match their own subject", bad, op.LL)}}
		}
		return Outcome{Valid: true}
	case KPattern:
		err := validate.Pattern(op.Path, "body", op.Str, op.Pattern)
		if err == nil {
			return Outcome{Valid: true}
		}
		return Outcome{Valid: false, Errors: []string{fmt.Sprintf("[%d] %s", err.Code(), err.Error())}}
	case KEnum:
		d := must(decodeJSON(op.Data, false))
		e := must(decodeJSON(op.Schema, false))
		err := validate.Enum(op.Path, "body", d, e)
		if err == nil {
			return Outcome{Valid: true}
		}
		return Outcome{Valid: false, Errors: []string{fmt.Sprintf("[%d] %s", err.Code(), err.Error())}}
	case KFormatOf:
		err := validate.FormatOf(op.Path, "body", op.Pattern, op.Str, op.registry(env))
		if err == nil {
			return Outcome{Valid: true}
		}
		return Outcome{Valid: false, Errors: []string{fmt.Sprintf("[%d] %s", err.Code(), err.Error())}}
	case KLLSchema:
		ll := env.LL[op.LL]
		d := must(decodeJSON(op.Data, op.UseNumber))
		defer ll.arm(op, env)()
		r := ll.sv.Validate(d)
		withHash := !strings.Contains(ll.Schema, "$ref")
		env.retain(op, func() string { return resultOutcomeH(r, true, withHash).Key() })
		return resultOutcomeH(r, true, withHash)
	case KLLParam:
		ll := env.LL[op.LL]
		v := must(op.TVal.Value())
		defer ll.arm(op, env)()
		r := ll.pv.Validate(v)
		env.retain(op, func() string { return resultOutcome(r, false).Key() })
		return resultOutcome(r, false)
	case KLLHeader:
		ll := env.LL[op.LL]
		v := must(op.TVal.Value())
		defer ll.arm(op, env)()
		r := ll.hv.Validate(v)
		env.retain(op, func() string { return resultOutcome(r, false).Key() })
		return resultOutcome(r, false)
	}
	panic(inputError{fmt.Errorf("unknown op kind %q", op.Kind)})
}

// arm tells the registry of a faulty long-lived validator to panic at the k-th checker invocation of this call; the
// returned function disarms it (also when the panic unwinds).
func (ll *LLValidator) arm(op *Op, env *Env) func() {
	if ll.reg == nil || op.Fault == nil {
		return func() {}
	}
	ll.reg.calls, ll.reg.fired, ll.reg.panicAt = 0, false, 0
	if op.Fault.Kind == "checker-panic" {
		ll.reg.panicAt = op.Fault.K
	}
	env.LastReg = ll.reg
	return func() { ll.reg.panicAt = 0 }
}

func allMsgs(r *validate.Result) []string {
	if r == nil {
		return []string{"<nil result>"}
	}
	out := []string{}
	for _, e := range msgs(r.Errors) {
		out = append(out, "E:"+e)
	}
	for _, e := range msgs(r.Warnings) {
		out = append(out, "W:"+e)
	}
	return out
}

// BuildLL builds the long-lived validators of a run (non-recycling, as the property requires).
func (env *Env) BuildLL(defs []*LLValidator, ctx *rt.OpCtx) (err error) {
	rt.BeginOp(ctx)
	defer rt.EndOp()
	defer func() {
		if r := recover(); r != nil {
			err = fmt.Errorf("building long-lived validator: %v", r)
		}
	}()
	env.LL = nil
	for _, d := range defs {
		ll := &LLValidator{Kind: d.Kind, Schema: d.Schema, Path: d.Path, Faulty: d.Faulty}
		var reg strfmt.Registry = strfmt.Default
		if d.Faulty {
			ll.reg = &faultRegistry{Registry: strfmt.Default}
			reg = ll.reg
		}
		switch d.Kind {
		case "schema":
			s, e := parseSchema(d.Schema)
			if e != nil {
				return e
			}
			ll.sv = validate.NewSchemaValidator(s, nil, d.Path, reg)
		case "param":
			p := new(spec.Parameter)
			if e := json.Unmarshal([]byte(d.Schema), p); e != nil {
				return e
			}
			ll.pv = validate.NewParamValidator(p, reg)
		case "header":
			h := new(spec.Header)
			if e := json.Unmarshal([]byte(d.Schema), h); e != nil {
				return e
			}
			ll.hv = validate.NewHeaderValidator(d.Path, h, reg)
		default:
			return fmt.Errorf("unknown long-lived validator kind %q", d.Kind)
		}
		env.LL = append(env.LL, ll)
	}
	return nil
}

// ---- documents ----

// loadDoc loads the document of op, or hands out the document object an earlier operation of this run loaded from the
// same bytes ("validating the same document again").
func (env *Env) loadDoc(op *Op) (*loads.Document, error) {
	if !op.ReuseDoc {
		return loadDoc(op)
	}
	key := fmt.Sprintf("%v/%v/%v/%s", op.YAML, op.Reorder, op.FromFile, op.Doc)
	if d, ok := env.docs[key]; ok {
		env.docReuses++
		return d, nil
	}
	d, err := loadDoc(op)
	if err != nil {
		return nil, err
	}
	if env.docs == nil {
		env.docs = map[string]*loads.Document{}
	}
	env.docs[key] = d
	return d, nil
}

func loadDoc(op *Op) (*loads.Document, error) {
	raw, err := docBytes(op.Doc)
	if err != nil {
		return nil, err
	}
	if op.Reorder {
		raw = reorderJSON(raw)
	}
	if op.YAML && !op.FromFile {
		// serialisation variant: JSON -> YAML text -> (loader's YAML path) -> JSON
		y, err := jsonToYAML(raw)
		if err != nil {
			return nil, err
		}
		raw, err = yamlToJSON(y)
		if err != nil {
			return nil, err
		}
	}
	if op.FromFile {
		ext := ".json"
		if op.YAML {
			// the real YAML loading path: a .yaml file read by the loader
			y, err := jsonToYAML(raw)
			if err != nil {
				return nil, err
			}
			raw, ext = y, ".yaml"
		}
		path, err := docFile(raw, ext)
		if err != nil {
			return nil, err
		}
		return loads.Spec(path)
	}
	return loads.Analyzed(json.RawMessage(raw), "")
}

// docFile writes a document to a file named after its content (same path in every process of one check) and returns the path.
func docFile(raw []byte, ext string) (string, error) {
	dir := os.Getenv("VERIF_DOCDIR")
	if dir == "" {
		dir = filepath.Join(os.TempDir(), "verif-docs")
	}
	if err := os.MkdirAll(dir, 0o755); err != nil {
		return "", err
	}
	h := fnv.New64a()
	h.Write(raw)
	path := filepath.Join(dir, fmt.Sprintf("doc-%016x%s", h.Sum64(), ext))
	if _, err := os.Stat(path); err == nil {
		return path, nil
	}
	tmp, err := os.CreateTemp(dir, "tmp-*")
	if err != nil {
		return "", err
	}
	if _, err := tmp.Write(raw); err != nil {
		tmp.Close()
		return "", err
	}
	tmp.Close()
	if err := os.Rename(tmp.Name(), path); err != nil {
		return "", err
	}
	return path, nil
}

// reorderJSON re-serialises a JSON text with the members of every object in reverse lexical order (a member-order
// variant of the same document).
func reorderJSON(raw []byte) []byte {
	var v any
	dec := json.NewDecoder(bytes.NewReader(raw))
	dec.UseNumber()
	if err := dec.Decode(&v); err != nil {
		return raw
	}
	var buf bytes.Buffer
	var emit func(x any)
	emit = func(x any) {
		switch t := x.(type) {
		case map[string]any:
			keys := make([]string, 0, len(t))
			for k := range t {
				keys = append(keys, k)
			}
			sort.Sort(sort.Reverse(sort.StringSlice(keys)))
			buf.WriteByte('{')
			for i, k := range keys {
				if i > 0 {
					buf.WriteByte(',')
				}
				kb, _ := json.Marshal(k)
				buf.Write(kb)
				buf.WriteByte(':')
				emit(t[k])
			}
			buf.WriteByte('}')
		case []any:
			buf.WriteByte('[')
			for i, e := range t {
				if i > 0 {
					buf.WriteByte(',')
				}
				emit(e)
			}
			buf.WriteByte(']')
		default:
			b, _ := json.Marshal(t)
			buf.Write(b)
		}
	}
	emit(v)
	return buf.Bytes()
}

func compactJSON(b []byte) string {
	var buf bytes.Buffer
	if err := json.Compact(&buf, b); err != nil {
		return string(b)
	}
	return buf.String()
}
