//go:build race

package main

import "runtime"

const raceEnabled = true

func raceErrors() int { return runtime.RaceErrors() }
