package main

import (
	"encoding/json"
	"fmt"
	"hash/fnv"
	"os"
	"sort"
	"strings"

	"github.com/go-openapi/spec"
	"github.com/go-openapi/validate"
	rt "verif.local/rt"
)

// Scenario: a run is a pure function of this value and of the code under test.
type Scenario struct {
	Property string          `json:"property"`
	Seed     uint64          `json:"seed"` // run seed: every hashed choice (pool picks, switches) derives from it
	GenSeed  uint64          `json:"gen_seed,omitempty"`
	Pool     rt.PoolPolicy   `json:"pool"`
	Sched    rt.SchedPolicy  `json:"sched"`
	LL       []*LLValidator  `json:"ll,omitempty"`
	Shared   []string        `json:"shared,omitempty"` // schemas parsed once and shared by all tasks (no $ref)
	Tasks    [][]Op          `json:"tasks"`
	Params   map[string]any  `json:"params,omitempty"`
	Results  *ResultScenario `json:"results,omitempty"` // C20
	// Prelude: runs executed before this one in the same process (their verdicts are ignored). Needed to replay
	// violations that depend on process-wide state left behind by earlier runs. PreludeRef names them compactly by
	// generator index; Prelude embeds them.
	Prelude    []*Scenario `json:"prelude,omitempty"`
	PreludeRef *PreludeRef `json:"prelude_ref,omitempty"`
	// filled in when the scenario is written as a replay file
	Expect *Violation `json:"expect,omitempty"`
	Hash   string     `json:"event_hash,omitempty"`
}

type PreludeRef struct {
	Seed uint64 `json:"seed"`
	Tier string `json:"tier"`
	Idx  []int  `json:"idx"`
}

// runScenario executes the preludes of sc (if any), then sc itself.
func runScenario(p *Prop, sc *Scenario, keepLog bool) *RunReport {
	if sc.PreludeRef != nil {
		genTier = sc.PreludeRef.Tier
		for _, idx := range sc.PreludeRef.Idx {
			if rep := p.Run(p.Gen(sc.PreludeRef.Seed, sc.PreludeRef.Tier, idx), false); rep.HarnessErr != "" {
				return rep
			}
		}
	}
	for _, pre := range sc.Prelude {
		if rep := p.Run(pre, false); rep.HarnessErr != "" {
			return rep
		}
	}
	return p.Run(sc, keepLog)
}

// embedPrelude turns the compact prelude reference into embedded scenarios (self-contained replay file).
func embedPrelude(p *Prop, sc *Scenario) {
	if sc.PreludeRef == nil {
		return
	}
	genTier = sc.PreludeRef.Tier
	for _, idx := range sc.PreludeRef.Idx {
		sc.Prelude = append(sc.Prelude, p.Gen(sc.PreludeRef.Seed, sc.PreludeRef.Tier, idx))
	}
	sc.PreludeRef = nil
}

func (sc *Scenario) NumOps() int {
	n := 0
	for _, t := range sc.Tasks {
		n += len(t)
	}
	if sc.Results != nil {
		n += len(sc.Results.Steps)
	}
	return n
}

func (sc *Scenario) Clone() *Scenario {
	b, _ := json.Marshal(sc)
	var c Scenario
	_ = json.Unmarshal(b, &c)
	return &c
}

// Violation of a property, as found in one run.
type Violation struct {
	Property string `json:"property"`
	Class    string `json:"class"` // outcome-mismatch | alias-after-return | data-race | not-linearizable | deadlock | order-dependence | ...
	OpUID    uint32 `json:"op_uid,omitempty"`
	OpKind   string `json:"op_kind,omitempty"`
	Site     string `json:"site,omitempty"` // stable description used to match known findings (frame pair / message class)
	Expected string `json:"expected,omitempty"`
	Got      string `json:"got,omitempty"`
	Detail   string `json:"detail,omitempty"`
}

// Sig identifies the violation class for minimisation and de-duplication.
func (v *Violation) Sig() string {
	return v.Property + "|" + v.Class + "|" + v.OpKind + "|" + v.Site
}

// RunReport of one simulated run.
type RunReport struct {
	Violations []Violation
	EventHash  uint64
	Signature  uint64 // signature of the run for "distinct" counting
	NonTrivial bool
	Ops        int
	Excluded   int // operations excluded because the oracle itself panics on them
	Steps      uint64
	Stats      rt.Stats
	Edges      map[string]int
	Faults     map[string]int // fault kind -> times actually fired
	Probes     map[string]int
	HarnessErr string
	Log        []string
}

func (r *RunReport) probe(name string, n int) {
	if r.Probes == nil {
		r.Probes = map[string]int{}
	}
	r.Probes[name] += n
}

func (r *RunReport) fault(name string, n int) {
	if r.Faults == nil {
		r.Faults = map[string]int{}
	}
	r.Faults[name] += n
}

// oracle cache: outcome of an operation executed alone with fresh objects (pool in oracle mode)
type oracleCache struct {
	m map[string]Outcome
}

func opKey(op *Op, extra string) string {
	c := *op
	c.UID = 0
	c.Role = ""
	c.Fault = nil // the oracle never injects the fault
	b, _ := json.Marshal(&c)
	return string(b) + extra
}

func (oc *oracleCache) get(op *Op, ll []*LLValidator, variant string) Outcome {
	extra := variant
	if strings.HasPrefix(op.Kind, "ll_") && op.LL < len(ll) {
		extra += "|" + ll[op.LL].Kind + "|" + ll[op.LL].Schema + "|" + ll[op.LL].Path
	}
	k := opKey(op, extra)
	if oc.m == nil {
		oc.m = map[string]Outcome{}
	}
	if o, ok := oc.m[k]; ok {
		return o
	}
	if len(oc.m) > 200000 {
		oc.m = map[string]Outcome{}
	}
	o := computeOracle(op, ll, variant)
	if os.Getenv("VERIF_DEBUG") != "" && (op.Kind == KSpec || op.Kind == KSpecOne) {
		fmt.Fprintf(os.Stderr, "DEBUG oracle %s coe=%v default=%v -> %s\n", trunc(op.Doc, 50), op.COE, validate.VerifDefaultOpts().ContinueOnErrors, trunc(o.Extra, 60))
	}
	oc.m[k] = o
	return o
}

// computeOracle executes op alone: fresh objects only (Get = New(), Put = discard), same map-order seed.
// variant "nr" executes the non-recycling form of a recycling entry point; variant "fresh" the same entry point.
func computeOracle(op *Op, ll []*LLValidator, variant string) Outcome {
	if op.Kind == KSetCOE || op.Kind == KReset {
		return Outcome{Valid: true} // never executed for an oracle: it would leave process-wide state behind
	}
	o := *op
	o.Fault = nil
	if variant == "nr" {
		switch op.Kind {
		case KAgainst:
			o.Kind = KSchemaNR
			o.Path = "" // the one-shot entry point validates at the empty root path
		case KSchemaRec:
			o.Kind = KSchemaNR
		case KParam, KHeader:
			o.Recycle = false
		}
	}
	// the oracle's spec validations share a meta-schema object for a few validations at a time (it saves the 0.25 s of
	// lazy $ref expansion per validation). Not for long: every validation expands the object a little further in place
	// and it grows without bound - measured on the real code: re-validating one loaded document 90 times takes its own
	// meta-schema from 0.47 MB to 2 MB and a validation from 0.15 s to 3 s, accelerating - so it is renewed regularly.
	if oracleMeta == nil || oracleMetaUses >= metaRenewAfter {
		oracleMeta, oracleMetaUses = spec.MustLoadSwagger20Schema(), 0
	}
	if op.Kind == KSpec && op.SharedMeta {
		oracleMetaUses++
	}
	env := &Env{meta: oracleMeta}
	switch op.Kind {
	case KLLSchema:
		o.Kind = KSchemaNR
		o.Schema = ll[op.LL].Schema
		o.Path = ll[op.LL].Path
		o.NoHash = strings.Contains(o.Schema, "$ref")
	case KLLParam:
		o.Kind = KParam
		o.Schema = ll[op.LL].Schema
		o.Recycle = false
	case KLLHeader:
		o.Kind = KHeader
		o.Schema = ll[op.LL].Schema
		o.Path = ll[op.LL].Path
		o.Recycle = false
	}
	ctx := &rt.OpCtx{UID: op.UID, Kind: kindNums[op.Kind], OrderSeed: op.OrderSeed, Oracle: true}
	if strings.HasPrefix(variant, "coe=") {
		// the operation alone under an explicit package-level default (put back afterwards)
		was := validate.VerifDefaultOpts().ContinueOnErrors
		validate.SetContinueOnErrors(variant == "coe=true")
		defer validate.SetContinueOnErrors(was)
	}
	return env.Exec(&o, ctx)
}

var (
	oracleMeta     *spec.Schema
	oracleMetaUses int
)

// metaRenewAfter: a shared Swagger meta-schema object serves this many validations, then a new one is loaded.
const metaRenewAfter = 8

var iterBase, iterPermBase uint64

func newSimFor(sc *Scenario, keep bool) *rt.Sim {
	iterBase, iterPermBase = rt.IterCalls, rt.IterPermuted
	validate.VerifResetGlobals()
	sim := rt.NewSim(sc.Seed, sc.Pool)
	sim.Names = validate.VerifPoolNames()
	sim.Keep = keep
	rt.Install(sim)
	return sim
}

func finishReport(rep *RunReport, sim *rt.Sim, opKinds []string) {
	rep.fault("map-order-permuted (range over a map walked in a seeded non-sorted order)", int(rt.IterPermuted-iterPermBase))
	rep.probe("map-ranges-seeded", int(rt.IterCalls-iterBase))
	rep.EventHash = sim.Hash
	rep.Stats = sim.Stats
	rep.Edges = map[string]int{}
	for e, c := range sim.Edges {
		rep.Edges[fmt.Sprintf("%s:%s>%s", strings.TrimPrefix(sim.PoolName(e.Pool), "poolOf"), kindNames[e.From], kindNames[e.To])] += c
	}
	rep.Steps = sim.NEv
	// signature: operation-kind sequence + recycling edges + switch sites
	h := fnv.New64a()
	for _, k := range opKinds {
		h.Write([]byte(k))
		h.Write([]byte{0})
	}
	edges := make([]string, 0, len(rep.Edges))
	for e := range rep.Edges {
		edges = append(edges, e)
	}
	sort.Strings(edges)
	for _, e := range edges {
		h.Write([]byte(e))
	}
	sites := make([]int, 0, len(sim.SwitchSites))
	for s := range sim.SwitchSites {
		sites = append(sites, s)
	}
	sort.Ints(sites)
	for _, s := range sites {
		fmt.Fprintf(h, "s%d,", s)
	}
	rep.Signature = h.Sum64()
	if sim.Keep {
		for _, e := range sim.Log {
			rep.Log = append(rep.Log, e.String())
		}
	}
}

// runHistory executes a single-task history against the fresh-process oracle (C04, C08, C11 share it).
//
//	compareNR: additionally compare verdict and message sets with the non-recycling form of the entry point
func runHistory(sc *Scenario, oc *oracleCache, keepLog bool, compareNR bool) *RunReport {
	rep := &RunReport{}
	sim := newSimFor(sc, keepLog)
	defer rt.Install(nil)
	env := &Env{Keep: true}
	if len(sc.LL) > 0 {
		if err := env.BuildLL(sc.LL, &rt.OpCtx{UID: 0xfffffff0, Kind: 0}); err != nil {
			rep.HarnessErr = err.Error()
			return rep
		}
	}
	var kinds []string
	if len(sc.Tasks) == 0 {
		finishReport(rep, sim, kinds)
		return rep
	}
	ops := sc.Tasks[0]
	for i := range ops {
		op := &ops[i]
		want := oc.get(op, sc.LL, "fresh")
		llAfterFault := sc.Property == "C11" && strings.HasPrefix(op.Kind, "ll_") && op.Fault == nil
		if want.Panic != "" && op.Fault == nil && !llAfterFault {
			// the library itself panics on this input even with fresh objects: an input-only matter (C06/C07),
			// excluded from histories
			rep.Excluded++
			continue
		}
		sim.MaybeClear(op.UID)
		ctx := &rt.OpCtx{UID: op.UID, Kind: kindNums[op.Kind], OrderSeed: op.OrderSeed}
		got := env.Exec(op, ctx)
		kinds = append(kinds, op.Kind)
		rep.Ops++
		if !got.Valid && got.Panic == "" {
			rep.probe("invalid-verdicts", 1)
		}
		if op.Data == "null" {
			rep.probe("early-exit-nil-data", 1)
		}
		if op.UseNumber {
			rep.probe("json-number-instances", 1)
		}
		if op.Fault != nil {
			fired := env.LastReg != nil && env.LastReg.fired
			if got.Panic != "" {
				rep.fault(op.Fault.Kind+"-fired", 1)
				if !fired && op.Fault.Kind == "checker-panic" {
					rep.probe("victim-panicked-otherwise", 1)
				}
			} else {
				rep.fault(op.Fault.Kind+"-not-reached", 1)
			}
			// the victim's own outcome is whatever the panic made of it: not compared
			if fired || got.Panic != "" {
				continue
			}
		}
		if got.Key() != want.Key() {
			rep.Violations = append(rep.Violations, Violation{
				Property: sc.Property, Class: "outcome-mismatch", OpUID: op.UID, OpKind: op.Kind,
				Site:     mismatchSite(want, got),
				Expected: want.Key(), Got: got.Key(),
				Detail: fmt.Sprintf("operation #%d (%s) differs from the same operation executed alone with fresh objects", i, op.brief()),
			})
			break
		}
		if strings.HasPrefix(op.Kind, "ll_") {
			// the same call on a freshly built validator under another map order: verdict and message sets must agree
			alt := *op
			alt.OrderSeed = mixSeed(op.OrderSeed, 0x5eed) | 1
			other := oc.get(&alt, sc.LL, "fresh")
			if other.Panic == "" && other.SetKey() != got.SetKey() {
				rep.Violations = append(rep.Violations, Violation{
					Property: sc.Property, Class: "order-dependence", OpUID: op.UID, OpKind: op.Kind,
					Site:     mismatchSite(other, got),
					Expected: other.SetKey(), Got: got.SetKey(),
					Detail: fmt.Sprintf("operation #%d (%s): verdict/messages differ from a freshly built validator on the same value under another map iteration order", i, op.brief()),
				})
				break
			}
		}
		if compareNR {
			switch op.Kind {
			case KAgainst, KSchemaRec, KParam, KHeader:
				if op.Kind == KParam || op.Kind == KHeader {
					if !op.Recycle {
						break
					}
				}
				nr := oc.get(op, sc.LL, "nr")
				if nr.Panic == "" && nr.SetKey() != got.SetKey() {
					rep.Violations = append(rep.Violations, Violation{
						Property: sc.Property, Class: "recycling-changes-outcome", OpUID: op.UID, OpKind: op.Kind,
						Site:     mismatchSite(nr, got),
						Expected: nr.SetKey(), Got: got.SetKey(),
						Detail: fmt.Sprintf("operation #%d (%s): verdict/messages differ from the same validation with recycling switched off", i, op.brief()),
					})
				}
			}
			if len(rep.Violations) > 0 {
				break
			}
		}
	}
	// nothing handed to a caller earlier may change afterwards
	if len(rep.Violations) == 0 {
		for _, rv := range env.Retained {
			if now := rv.Render(); now != rv.Was {
				rep.Violations = append(rep.Violations, Violation{
					Property: sc.Property, Class: "alias-after-return", OpUID: rv.UID,
					Expected: rv.Was, Got: now,
					Detail: "a value returned to the caller earlier changed while later validations ran (it aliases recycled memory)",
				})
				break
			}
		}
	}
	// a sample of histories also asks a real fresh process (it knows nothing of this process' hidden state)
	if len(rep.Violations) == 0 && rep.HarnessErr == "" && sc.Property == "C04" && sc.Seed%16 == 3 && len(ops) > 0 {
		last := ops[len(ops)-1]
		if want := oc.get(&last, sc.LL, "fresh"); want.Panic == "" && last.Fault == nil {
			fouts, err := freshOutcomes([]Op{last}, sc.LL)
			if err != nil {
				rep.HarnessErr = err.Error()
			} else {
				rep.fault("fresh-process-repetition", 1)
				if fouts[0].Key() != want.Key() {
					rep.Violations = append(rep.Violations, Violation{Property: sc.Property, Class: "differs-from-fresh-process", OpUID: last.UID, OpKind: last.Kind,
						Site: mismatchSite(fouts[0], want), Expected: fouts[0].Key(), Got: want.Key(),
						Detail: fmt.Sprintf("operation (%s) executed in this process with fresh objects differs from the same operation in a fresh process that did nothing else", last.brief())})
				}
			}
		}
	}
	rep.probe("double-put", int(sim.Stats.DoublePuts))
	rep.probe("dual-owner", int(sim.Stats.DualOwner))
	rep.fault("same-schema-object-validated-again", env.schemaReuses)
	rep.fault("same-loaded-document-validated-again", env.docReuses)
	rep.NonTrivial = sim.Stats.ForeignRecycles > 0
	finishReport(rep, sim, kinds)
	return rep
}

// mismatchSite gives a coarse, stable class of an outcome difference (used in violation signatures).
func mismatchSite(want, got Outcome) string {
	switch {
	case got.Panic != "" && want.Panic == "":
		return "panic"
	case want.Valid != got.Valid:
		return "verdict"
	case strings.Join(want.Errors, "\n") != strings.Join(got.Errors, "\n"):
		return "errors"
	case strings.Join(want.Warnings, "\n") != strings.Join(got.Warnings, "\n"):
		return "warnings"
	case want.Match != got.Match:
		return "matchcount"
	case want.Extra != got.Extra:
		return "extra"
	case want.Nil != got.Nil:
		return "nil"
	}
	return "other"
}

func writeScenario(path string, sc *Scenario) error {
	b, err := json.MarshalIndent(sc, "", " ")
	if err != nil {
		return err
	}
	return os.WriteFile(path, b, 0o644)
}

func readScenario(path string) (*Scenario, error) {
	b, err := os.ReadFile(path)
	if err != nil {
		return nil, err
	}
	var sc Scenario
	if err := json.Unmarshal(b, &sc); err != nil {
		return nil, err
	}
	return &sc, nil
}
