package main

import (
	"encoding/json"
	"sort"
	"time"
)

// minimizer: delta debugging on the scenario while the same violation class (Sig) persists.
type minimizer struct {
	sig      string
	test     func(*Scenario) bool // true = the candidate still shows the violation class
	tried    int
	maxTried int
	deadline time.Time
}

func (m *minimizer) ok(c *Scenario) bool {
	if m.tried >= m.maxTried || time.Now().After(m.deadline) {
		return false
	}
	m.tried++
	return m.test(c)
}

func (m *minimizer) exhausted() bool {
	return m.tried >= m.maxTried || time.Now().After(m.deadline)
}

func minimize(sc *Scenario, v *Violation, test func(*Scenario) bool, maxTried int, budget time.Duration) (*Scenario, int) {
	m := &minimizer{sig: v.Sig(), test: test, maxTried: maxTried, deadline: time.Now().Add(budget)}
	cur := sc.Clone()
	// 1. cut everything after the operation that showed the violation (single-task histories)
	if len(cur.Tasks) == 1 && v.OpUID != 0 {
		for i, op := range cur.Tasks[0] {
			if op.UID == v.OpUID && i+1 < len(cur.Tasks[0]) {
				c := cur.Clone()
				c.Tasks[0] = c.Tasks[0][:i+1]
				if m.ok(c) {
					cur = c
				}
				break
			}
		}
	}
	// 2. drop whole tasks
	for ti := len(cur.Tasks) - 1; ti >= 0 && len(cur.Tasks) > 1; ti-- {
		c := cur.Clone()
		c.Tasks = append(c.Tasks[:ti], c.Tasks[ti+1:]...)
		if m.ok(c) {
			cur = c
		}
	}
	// 3. ddmin over the operations of every task
	for ti := range cur.Tasks {
		n := len(cur.Tasks[ti])
		chunk := n / 2
		for chunk >= 1 && !m.exhausted() {
			removed := false
			for start := 0; start < len(cur.Tasks[ti]); {
				end := start + chunk
				if end > len(cur.Tasks[ti]) {
					end = len(cur.Tasks[ti])
				}
				c := cur.Clone()
				c.Tasks[ti] = append(append([]Op{}, c.Tasks[ti][:start]...), c.Tasks[ti][end:]...)
				if m.ok(c) {
					cur = c
					removed = true
				} else {
					start = end
				}
				if m.exhausted() {
					break
				}
			}
			if !removed || chunk == 1 {
				chunk /= 2
			}
		}
	}
	// 3b. C20: steps of the result scenario
	if cur.Results != nil {
		chunk := len(cur.Results.Steps) / 2
		for chunk >= 1 && !m.exhausted() {
			removed := false
			for start := 0; start < len(cur.Results.Steps); {
				end := start + chunk
				if end > len(cur.Results.Steps) {
					end = len(cur.Results.Steps)
				}
				c := cur.Clone()
				c.Results.Steps = append(append([]RStep{}, c.Results.Steps[:start]...), c.Results.Steps[end:]...)
				if m.ok(c) {
					cur = c
					removed = true
				} else {
					start = end
				}
				if m.exhausted() {
					break
				}
			}
			if !removed || chunk == 1 {
				chunk /= 2
			}
		}
	}
	// 4. simpler choices: default policies, sorted map order, plain options
	try := func(f func(c *Scenario) bool) {
		c := cur.Clone()
		if f(c) && m.ok(c) {
			cur = c
		}
	}
	try(func(c *Scenario) bool { ch := c.Pool.ClearPM != 0; c.Pool.ClearPM = 0; return ch })
	try(func(c *Scenario) bool { ch := c.Pool.DropPM != 0; c.Pool.DropPM = 0; return ch })
	try(func(c *Scenario) bool { ch := c.Pool.MissPM != 0; c.Pool.MissPM = 0; return ch })
	try(func(c *Scenario) bool { ch := c.Pool.Mode != 0; c.Pool.Mode = 0; return ch })
	try(func(c *Scenario) bool { ch := c.Sched.Kind != 0; c.Sched.Kind = 0; return ch })
	try(func(c *Scenario) bool {
		ch := false
		for ti := range c.Tasks {
			for i := range c.Tasks[ti] {
				if c.Tasks[ti][i].OrderSeed != 0 {
					c.Tasks[ti][i].OrderSeed = 0
					ch = true
				}
			}
		}
		return ch
	})
	for ti := range cur.Tasks {
		for i := range cur.Tasks[ti] {
			ti, i := ti, i
			if m.exhausted() {
				break
			}
			try(func(c *Scenario) bool { o := &c.Tasks[ti][i]; ch := o.OrderSeed != 0; o.OrderSeed = 0; return ch })
			try(func(c *Scenario) bool {
				o := &c.Tasks[ti][i]
				ch := o.UseNumber || o.Swagger || o.Path != ""
				o.UseNumber, o.Swagger, o.Path = false, false, ""
				return ch
			})
		}
	}
	// 5. structural shrinking of schemas, instances and documents
	for pass := 0; pass < 3 && !m.exhausted(); pass++ {
		progress := false
		for ti := range cur.Tasks {
			for i := range cur.Tasks[ti] {
				for _, field := range []string{"schema", "data", "doc"} {
					if m.exhausted() {
						break
					}
					if shrinkField(m, &cur, ti, i, field) {
						progress = true
					}
				}
			}
		}
		if !progress {
			break
		}
	}
	return cur, m.tried
}

func getField(o *Op, f string) *string {
	switch f {
	case "schema":
		return &o.Schema
	case "data":
		return &o.Data
	}
	return &o.Doc
}

// shrinkField tries to delete members / elements of the JSON text in one field of one operation.
func shrinkField(m *minimizer, cur **Scenario, ti, i int, field string) bool {
	text := *getField(&(*cur).Tasks[ti][i], field)
	if text == "" || text[0] == '@' {
		return false
	}
	var v any
	if json.Unmarshal([]byte(text), &v) != nil {
		return false
	}
	progress := false
	// enumerate deletion paths, deepest last; retry from scratch after every success
	for rounds := 0; rounds < 40 && !m.exhausted(); rounds++ {
		paths := deletionPaths(v, nil)
		done := true
		for _, p := range paths {
			if m.exhausted() {
				break
			}
			nv := deleteAt(cloneJSON(v), p)
			b, err := json.Marshal(nv)
			if err != nil {
				continue
			}
			c := (*cur).Clone()
			*getField(&c.Tasks[ti][i], field) = string(b)
			// the same text usually occurs in several operations (vocabulary): replace it everywhere
			for tj := range c.Tasks {
				for j := range c.Tasks[tj] {
					if f := getField(&c.Tasks[tj][j], field); *f == text {
						*f = string(b)
					}
				}
			}
			if m.ok(c) {
				*cur = c
				v = nv
				text = string(b)
				progress = true
				done = false
				break
			}
		}
		if done {
			break
		}
	}
	return progress
}

func cloneJSON(v any) any {
	b, _ := json.Marshal(v)
	var c any
	_ = json.Unmarshal(b, &c)
	return c
}

type jpath []any

func deletionPaths(v any, prefix jpath) []jpath {
	var out []jpath
	switch t := v.(type) {
	case map[string]any:
		keys := make([]string, 0, len(t))
		for k := range t {
			keys = append(keys, k)
		}
		sort.Strings(keys)
		for _, k := range keys {
			p := append(append(jpath{}, prefix...), k)
			out = append(out, p)
		}
		for _, k := range keys {
			p := append(append(jpath{}, prefix...), k)
			out = append(out, deletionPaths(t[k], p)...)
		}
	case []any:
		for i := range t {
			p := append(append(jpath{}, prefix...), i)
			out = append(out, p)
		}
		for i := range t {
			p := append(append(jpath{}, prefix...), i)
			out = append(out, deletionPaths(t[i], p)...)
		}
	}
	return out
}

func deleteAt(v any, p jpath) any {
	if len(p) == 0 {
		return v
	}
	switch t := v.(type) {
	case map[string]any:
		k, _ := p[0].(string)
		if len(p) == 1 {
			delete(t, k)
			return t
		}
		t[k] = deleteAt(t[k], p[1:])
		return t
	case []any:
		i, _ := p[0].(int)
		if i < 0 || i >= len(t) {
			return t
		}
		if len(p) == 1 {
			return append(append([]any{}, t[:i]...), t[i+1:]...)
		}
		t[i] = deleteAt(t[i], p[1:])
		return t
	}
	return v
}
