package rt

import (
	"reflect"
	"sort"
)

// MapIter is what a rewritten `for k, v := range m` walks: a snapshot of the
// keys in a seeded order. Every behaviour it shows is one a Go map range may
// show: keys deleted before they are reached are skipped, values are read when
// the key is produced, keys added during the walk are not produced.
type MapIter[K comparable, V any] struct {
	m    map[K]V
	keys []K
	i    int
}

// statistics (plain counters; multi-task runs only touch them while holding the baton)
var (
	IterCalls     uint64
	IterPermuted  uint64
	IterUnordered uint64 // key type that cannot be sorted: native order kept
)

func newIter[M ~map[K]V, K comparable, V any](m M, site int) *MapIter[K, V] {
	it := &MapIter[K, V]{m: m}
	n := len(m)
	if n == 0 {
		return it
	}
	keys := make([]K, 0, n)
	for k := range m {
		keys = append(keys, k)
	}
	it.keys = keys
	if n == 1 {
		return it
	}
	seed, active := orderSeed()
	if !active {
		// pass-through: native order (the instrumented copy then behaves exactly like the original)
		return it
	}
	noteIter()
	h, ok := sortKeys(keys)
	if !ok {
		noteUnordered()
		return it
	}
	if seed == 0 {
		return it // sorted order
	}
	notePermuted()
	// permutation = pure function of (orderSeed, site, hash of sorted key set)
	s := mix64(seed ^ mix64(uint64(site)+0x9e3779b97f4a7c15) ^ h)
	for i := n - 1; i > 0; i-- {
		s = splitmix(&s)
		j := int(s % uint64(i+1))
		keys[i], keys[j] = keys[j], keys[i]
	}
	return it
}

func splitmix(s *uint64) uint64 {
	*s += 0x9e3779b97f4a7c15
	z := *s
	z = (z ^ (z >> 30)) * 0xbf58476d1ce4e5b9
	z = (z ^ (z >> 27)) * 0x94d049bb133111eb
	return z ^ (z >> 31)
}

func mix64(z uint64) uint64 {
	z = (z ^ (z >> 30)) * 0xbf58476d1ce4e5b9
	z = (z ^ (z >> 27)) * 0x94d049bb133111eb
	return z ^ (z >> 31)
}

func hashString(h uint64, s string) uint64 {
	for i := 0; i < len(s); i++ {
		h ^= uint64(s[i])
		h *= 1099511628211
	}
	h ^= 0xff
	h *= 1099511628211
	return h
}

// sortKeys sorts keys in place when the key type has a natural order and returns a hash of the sorted key set.
func sortKeys[K comparable](keys []K) (uint64, bool) {
	h := uint64(14695981039346656037)
	switch ks := any(keys).(type) {
	case []string:
		sort.Strings(ks)
		for _, k := range ks {
			h = hashString(h, k)
		}
		return h, true
	case []int:
		sort.Ints(ks)
		for _, k := range ks {
			h = mix64(h ^ uint64(k))
		}
		return h, true
	}
	var zero K
	rt := reflect.TypeOf(zero)
	if rt == nil {
		// interface-typed keys: sortable only when all dynamic values are strings or numbers of one kind
		return sortIfaceKeys(keys)
	}
	switch rt.Kind() {
	case reflect.String:
		sort.Slice(keys, func(i, j int) bool {
			return reflect.ValueOf(keys[i]).String() < reflect.ValueOf(keys[j]).String()
		})
		for _, k := range keys {
			h = hashString(h, reflect.ValueOf(k).String())
		}
	case reflect.Int, reflect.Int8, reflect.Int16, reflect.Int32, reflect.Int64:
		sort.Slice(keys, func(i, j int) bool {
			return reflect.ValueOf(keys[i]).Int() < reflect.ValueOf(keys[j]).Int()
		})
		for _, k := range keys {
			h = mix64(h ^ uint64(reflect.ValueOf(k).Int()))
		}
	case reflect.Uint, reflect.Uint8, reflect.Uint16, reflect.Uint32, reflect.Uint64, reflect.Uintptr:
		sort.Slice(keys, func(i, j int) bool {
			return reflect.ValueOf(keys[i]).Uint() < reflect.ValueOf(keys[j]).Uint()
		})
		for _, k := range keys {
			h = mix64(h ^ reflect.ValueOf(k).Uint())
		}
	case reflect.Float32, reflect.Float64:
		sort.Slice(keys, func(i, j int) bool {
			return reflect.ValueOf(keys[i]).Float() < reflect.ValueOf(keys[j]).Float()
		})
		for _, k := range keys {
			h = mix64(h ^ uint64(int64(reflect.ValueOf(k).Float()*1024)))
		}
	case reflect.Bool:
		sort.Slice(keys, func(i, j int) bool {
			return !reflect.ValueOf(keys[i]).Bool() && reflect.ValueOf(keys[j]).Bool()
		})
		h = mix64(h ^ uint64(len(keys)))
	default:
		return 0, false
	}
	return h, true
}

func sortIfaceKeys[K comparable](keys []K) (uint64, bool) {
	h := uint64(14695981039346656037)
	strs := make([]string, len(keys))
	for i, k := range keys {
		s, ok := any(k).(string)
		if !ok {
			return 0, false
		}
		strs[i] = s
	}
	sort.Slice(keys, func(i, j int) bool { return any(keys[i]).(string) < any(keys[j]).(string) })
	for _, k := range keys {
		h = hashString(h, any(k).(string))
	}
	return h, true
}

func (it *MapIter[K, V]) advance() (K, V, bool) {
	for it.i < len(it.keys) {
		k := it.keys[it.i]
		it.i++
		if v, ok := it.m[k]; ok {
			return k, v, true
		}
		// NaN keys and keys deleted meanwhile are not produced
	}
	var zk K
	var zv V
	return zk, zv, false
}

// Iter3: for it, k, v := rt.Iter3(m, site); it.Next(&k, &v); { ... }
func Iter3[M ~map[K]V, K comparable, V any](m M, site int) (*MapIter[K, V], K, V) {
	var zk K
	var zv V
	return newIter[M, K, V](m, site), zk, zv
}

// IterK: for it, k := rt.IterK(m, site); it.NextK(&k); { ... }
func IterK[M ~map[K]V, K comparable, V any](m M, site int) (*MapIter[K, V], K) {
	var zk K
	return newIter[M, K, V](m, site), zk
}

// IterV: for it, v := rt.IterV(m, site); it.NextV(&v); { ... }
func IterV[M ~map[K]V, K comparable, V any](m M, site int) (*MapIter[K, V], V) {
	var zv V
	return newIter[M, K, V](m, site), zv
}

// IterA: assignment form `for k, v = range m`: for it := rt.IterA(m, site); it.Next(&k, &v); { ... }
func IterA[M ~map[K]V, K comparable, V any](m M, site int) *MapIter[K, V] {
	return newIter[M, K, V](m, site)
}

func (it *MapIter[K, V]) Next(k *K, v *V) bool {
	kk, vv, ok := it.advance()
	if ok {
		*k, *v = kk, vv
	}
	return ok
}

func (it *MapIter[K, V]) NextK(k *K) bool {
	kk, _, ok := it.advance()
	if ok {
		*k = kk
	}
	return ok
}

func (it *MapIter[K, V]) NextV(v *V) bool {
	_, vv, ok := it.advance()
	if ok {
		*v = vv
	}
	return ok
}
