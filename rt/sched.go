package rt

import (
	"fmt"
	"reflect"
	"runtime"
	"sync"
	"sync/atomic"
	"time"
	"unsafe"
)

// Scheduling policies.
const (
	SchedRandom     = iota // at each point switch with probability SwitchPM/1000 to a random runnable task
	SchedPCT               // priorities with Depth random priority-change points
	SchedChaser            // after a Put, let another task run for a while (it tends to re-borrow the object), then come back
	SchedRoundRobin        // switch at every point
	SchedModes
)

type SchedPolicy struct {
	Kind     int `json:"kind"`
	SwitchPM int `json:"switch_pm"`
	Depth    int `json:"depth"`
	ChasePM  int `json:"chase_pm"`
}

const (
	reqNone = iota
	reqGet
	reqPut
	reqYield
	reqBlocked
	reqUnlock
	reqDone
)

const (
	stRunnable = iota
	stBlocked
	stDone
)

// Task is one simulated caller thread: a real goroutine that only runs while it holds the baton.
type Task struct {
	id    int32
	uid   uint32
	fn    func()
	ctx   *OpCtx
	state int
	mu    unsafe.Pointer // mutex the task is blocked on
	prio  int
	steps uint32

	// request / response mailbox (norace only)
	rkind int
	rpool *sync.Pool
	robj  any
	rsite int
	rmu   unsafe.Pointer
	// piggy-backed: object obtained from New() after the previous Get missed
	newObj  any
	newPool *sync.Pool
	resp    any

	panicked any
	stack    []byte
}

const ctrlID = -1

// baton: id of the goroutine allowed to run. Plain word, spun on with Gosched inside norace functions:
// invisible to the race detector, so it orders nothing in the detector's happens-before relation.
var (
	turn     int32 = ctrlID
	released int32
	running  *Task
	multi    bool
)

//go:norace
func runningTask() *Task {
	if !multi {
		return nil
	}
	return running
}

//go:norace
func waitTurn(id int32) {
	n := 0
	for turn != id {
		n++
		if n < 200 {
			runtime.Gosched()
		} else {
			// many parked tasks: do not burn all cores
			time.Sleep(20 * time.Microsecond)
			if n > 400 {
				n = 100
			}
		}
	}
}

var spinDeadline int64 // unix nano; 0 = none

//go:norace
func ctrlWait() bool {
	n := 0
	for turn != ctrlID {
		if n < 4000 {
			runtime.Gosched()
		} else {
			// the task has been running for a while (or the machine is oversubscribed): do not burn a core on waiting,
			// and do not hammer the kernel with timers either: back off exponentially up to 200 microseconds
			d := time.Duration(5<<uint((n-4000)/4)) * time.Microsecond
			if d > 200*time.Microsecond || d <= 0 {
				d = 200 * time.Microsecond
			}
			time.Sleep(d)
		}
		n++
		if n&0xfff == 0 && spinDeadline != 0 && time.Now().UnixNano() > spinDeadline {
			return false
		}
	}
	return true
}

//go:norace
func setTurn(id int32) { turn = id }

//go:norace
func waitReleased() {
	for released == 0 {
		time.Sleep(50 * time.Microsecond)
	}
}

// token table: gives every pooled object its own word for the Put -> Get happens-before edge that a real
// sync.Pool provides (race.ReleaseMerge / race.Acquire). Open addressing over plain arrays, norace, no Go map.
const tokSize = 1 << 21

var (
	tokKeys  [tokSize]uintptr
	tokVals  [tokSize]uint32
	tokSlots = make([]int32, 0, tokSize/2) // occupied slots of this run (cleared by resetTokens); never grows
	// TokOverflow counts Put/Get pairs that had to share the overflow token (reported as harness trouble: a shared token
	// would hand the getter the clock of whoever released last, i.e. lose happens-before edges and fake data races)
	TokOverflow uint64
)

// tokFor returns the token word of the object at address a (one word per object: exactly sync.Pool's Put->Get edge).
// ok is false when the table is full.
//
//go:norace
func tokFor(a uintptr) (tok *uint32, ok bool) {
	i := int((a>>3)*2654435761) & (tokSize - 1)
	for n := 0; n < tokSize/2; n++ {
		k := tokKeys[i]
		if k == a {
			return &tokVals[i], true
		}
		if k == 0 {
			if len(tokSlots) == cap(tokSlots) {
				break // half full: treat as full (probe sequences stay short, the slot list never reallocates)
			}
			tokKeys[i] = a
			tokSlots = append(tokSlots, int32(i))
			return &tokVals[i], true
		}
		i = (i + 1) & (tokSize - 1)
	}
	TokOverflow++
	return &tokVals[tokSize-1], false
}

//go:norace
func resetTokens() {
	for _, i := range tokSlots {
		tokKeys[i] = 0
	}
	tokSlots = tokSlots[:0]
	resetConds()
}

// yield hands the baton to the controller and waits to get it back.
//
//go:norace
func (t *Task) yield(kind int) {
	t.rkind = kind
	setTurn(ctrlID)
	waitTurn(t.id)
}

//go:norace
func (t *Task) poolGet(p *sync.Pool) any {
	t.rpool = p
	t.yield(reqGet)
	x := t.resp
	t.resp = nil
	if x == nil {
		if p.New == nil {
			return nil
		}
		x = p.New()
		t.newObj, t.newPool = x, p
		return x
	}
	if a := ptrOf(x); a != 0 {
		if tok, ok := tokFor(a); ok {
			atomic.LoadUint32(tok) // acquire: everything the putter did before its Put happens-before us
		} else {
			atomic.AddUint32(tok, 0) // table full: acquire on the shared word (see poolPut)
		}
	}
	return x
}

//go:norace
func (t *Task) poolPut(p *sync.Pool, x any) {
	if x != nil {
		if a := ptrOf(x); a != 0 {
			if tok, ok := tokFor(a); ok {
				atomic.StoreUint32(tok, 1) // release
			} else {
				// table full: a read-modify-write on the shared word merges the clocks of all putters instead of keeping
				// the last one only (more happens-before than sync.Pool gives: races may be missed, never invented)
				atomic.AddUint32(tok, 1)
			}
		}
	}
	t.rpool, t.robj = p, x
	t.yield(reqPut)
	t.robj = nil
}

// Y is a scheduling point placed before a sync/atomic operation of package validate: rt.Y(site, &mu).Lock() etc.
func Y[T any](site int, x T) T {
	if t := runningTask(); t != nil {
		if c := curCtx(); c != nil && !ctxOracle(c) {
			t.yieldAt(site)
		}
	}
	return x
}

//go:norace
func (t *Task) yieldAt(site int) {
	t.rsite = site
	t.yield(reqYield)
}

// MutexLock replaces m.Lock(): a scheduling point, then TryLock until it succeeds; a task that finds the
// mutex taken is marked blocked and somebody else runs (a parked owner can therefore never dead-lock the baton).
func MutexLock(m *sync.Mutex, site int) {
	t := runningTask()
	if t == nil {
		if !singleCaller() {
			m.Lock()
		} else if !m.TryLock() {
			inlineDeadlock("sync.Mutex.Lock", site)
		}
		return
	}
	t.yieldAt(site)
	for !m.TryLock() {
		t.blockOn(unsafe.Pointer(m))
	}
}

func MutexUnlock(m *sync.Mutex, site int) {
	m.Unlock()
	if t := runningTask(); t != nil {
		t.unlocked(unsafe.Pointer(m), site)
	}
}

func RWMutexLock(m *sync.RWMutex, site int) {
	t := runningTask()
	if t == nil {
		if !singleCaller() {
			m.Lock()
		} else if !m.TryLock() {
			inlineDeadlock("sync.RWMutex.Lock", site)
		}
		return
	}
	t.yieldAt(site)
	for !m.TryLock() {
		t.blockOn(unsafe.Pointer(m))
	}
}

func RWMutexUnlock(m *sync.RWMutex, site int) {
	m.Unlock()
	if t := runningTask(); t != nil {
		t.unlocked(unsafe.Pointer(m), site)
	}
}

func RWMutexRLock(m *sync.RWMutex, site int) {
	t := runningTask()
	if t == nil {
		if !singleCaller() {
			m.RLock()
		} else if !m.TryRLock() {
			inlineDeadlock("sync.RWMutex.RLock", site)
		}
		return
	}
	t.yieldAt(site)
	for !m.TryRLock() {
		t.blockOn(unsafe.Pointer(m))
	}
}

func RWMutexRUnlock(m *sync.RWMutex, site int) {
	m.RUnlock()
	if t := runningTask(); t != nil {
		t.unlocked(unsafe.Pointer(m), site)
	}
}

//go:norace
func (t *Task) blockOn(m unsafe.Pointer) {
	t.rmu = m
	t.yield(reqBlocked)
}

//go:norace
func (t *Task) unlocked(m unsafe.Pointer, site int) {
	t.rmu = m
	t.rsite = site
	t.yield(reqUnlock)
}

// ---- sync.Locker / sync.Cond of package validate (R3) ----

// LockerLock / LockerUnlock replace l.Lock() / l.Unlock() on a sync.Locker value (typically the L of a Cond).
func LockerLock(l sync.Locker, site int) {
	switch v := l.(type) {
	case *sync.Mutex:
		MutexLock(v, site)
	case *sync.RWMutex:
		RWMutexLock(v, site)
	default:
		if t := runningTask(); t != nil {
			t.yieldAt(site)
		}
		l.Lock()
	}
}

func LockerUnlock(l sync.Locker, site int) {
	switch v := l.(type) {
	case *sync.Mutex:
		MutexUnlock(v, site)
	case *sync.RWMutex:
		RWMutexUnlock(v, site)
	default:
		l.Unlock()
		if t := runningTask(); t != nil {
			t.yieldAt(site)
		}
	}
}

// Condition variables are emulated with the ticket scheme the runtime itself uses (FIFO): Wait takes a ticket, releases L
// and is blocked until the ticket has been notified; Signal notifies the oldest waiting ticket, Broadcast all of them.
// The real Cond is never waited on in a multi-task run (a task blocked in the runtime would keep the baton).
const condSize = 64

var (
	condKeys [condSize]uintptr
	condNext [condSize]uint64 // next ticket to hand out
	condWake [condSize]uint64 // tickets below this one have been notified
)

//go:norace
func condSlot(c *sync.Cond) int {
	a := uintptr(unsafe.Pointer(c))
	i := int((a>>4)*2654435761) & (condSize - 1)
	for n := 0; n < condSize; n++ {
		if condKeys[i] == a {
			return i
		}
		if condKeys[i] == 0 {
			condKeys[i] = a
			condNext[i], condWake[i] = 0, 0
			return i
		}
		i = (i + 1) & (condSize - 1)
	}
	panic("verif/rt: more than 64 condition variables in one run: enlarge condSize")
}

//go:norace
func condTake(i int) uint64 { n := condNext[i]; condNext[i]++; return n }

//go:norace
func condNotified(i int, ticket uint64) bool { return ticket < condWake[i] }

//go:norace
func condNotify(i int, all bool) {
	if all {
		condWake[i] = condNext[i]
	} else if condWake[i] < condNext[i] {
		condWake[i]++
	}
}

//go:norace
func resetConds() {
	for i := range condKeys {
		condKeys[i] = 0
	}
}

func CondWait(c *sync.Cond, site int) {
	t := runningTask()
	if t == nil {
		if singleCaller() {
			inlineDeadlock("sync.Cond.Wait", site) // nobody is there to signal
		}
		c.Wait()
		return
	}
	t.yieldAt(site)
	i := condSlot(c)
	ticket := condTake(i)
	LockerUnlock(c.L, site)
	for !condNotified(i, ticket) {
		t.blockOn(unsafe.Pointer(c))
	}
	LockerLock(c.L, site)
}

func CondSignal(c *sync.Cond, site int) {
	t := runningTask()
	if t == nil {
		c.Signal()
		return
	}
	t.yieldAt(site)
	condNotify(condSlot(c), false)
	t.unlocked(unsafe.Pointer(c), site)
}

func CondBroadcast(c *sync.Cond, site int) {
	t := runningTask()
	if t == nil {
		c.Broadcast()
		return
	}
	t.yieldAt(site)
	condNotify(condSlot(c), true)
	t.unlocked(unsafe.Pointer(c), site)
}

// singleCaller tells whether the library is known to be executed by one goroutine only right now: an inline run of the
// simulator, or an operation executed in oracle mode. Without a simulator (the repository's own tests running on the
// rewritten copy, with real goroutines) nothing is known and blocking operations stay blocking.
//
//go:norace
func singleCaller() bool {
	if installed() != nil {
		return true
	}
	c := curCtx()
	return c != nil && ctxOracle(c)
}

// inlineDeadlock: in a single-task (inline) run only one goroutine ever executes library code (the instrumenter refuses
// `go` statements in package validate), so an operation that would block can never be released by anybody: the call
// would never return. It is turned into a panic carrying this text, which the harness records as the operation's outcome.
func inlineDeadlock(what string, site int) {
	panic(fmt.Sprintf("verif: deadlock: %s at sync site %d would block forever (the only caller goroutine waits for something nobody can release): the call never returns", what, site))
}

// RunResult of a multi-task run.
type RunResult struct {
	Deadlock  bool
	Stuck     bool // watchdog: a task did not come back (harness trouble)
	TaskPanic []string
	Steps     uint64
}

// decide: pure function of (seed, task uid, task step, salt)
func (s *Sim) decide(uid, step uint32, salt uint64, n int) int {
	if n <= 1 {
		return 0
	}
	h := mix64(s.Seed ^ 0xa5a5a5a5 ^ mix64(uint64(uid)<<32|uint64(step)) ^ mix64(salt+0x2545f491))
	return int(h % uint64(n))
}

// RunTasks runs fns as simulated tasks under sched, with the calling goroutine as controller. It returns when all
// tasks are done (or on deadlock / watchdog). uids are the stable task ids used for hashed decisions.
func RunTasks(s *Sim, sched SchedPolicy, uids []uint32, fns []func(), watchdog time.Duration) RunResult {
	var res RunResult
	n := len(fns)
	tasks := make([]*Task, n)
	var wg sync.WaitGroup
	setMulti(true)
	resetTokens()
	setReleased(0)
	setTurn(ctrlID)
	if watchdog > 0 {
		spinDeadline = time.Now().Add(watchdog).UnixNano()
	} else {
		spinDeadline = 0
	}
	for i := range fns {
		t := &Task{id: int32(i), uid: uids[i], fn: fns[i], prio: 0}
		tasks[i] = t
		wg.Add(1)
		go taskMain(t, &wg)
	}
	ctrlLoop(s, sched, tasks, &res)
	setRunning(nil)
	setCur(nil)
	setReleased(1)
	if !res.Stuck {
		wg.Wait() // a real synchronisation, but only after the last library instruction of the run
	}
	setMulti(false)
	for _, t := range tasks {
		if t.panicked != nil {
			res.TaskPanic = append(res.TaskPanic, fmt.Sprintf("task %d: %v\n%s", t.id, t.panicked, t.stack))
		}
	}
	return res
}

//go:norace
func setMulti(b bool) { multi = b }

//go:norace
func setReleased(v int32) { released = v }

//go:norace
func setRunning(t *Task) { running = t }

func taskMain(t *Task, wg *sync.WaitGroup) {
	defer wg.Done()
	waitTurn(t.id)
	func() {
		defer func() {
			if r := recover(); r != nil {
				taskPanicked(t, r)
			}
		}()
		t.fn()
	}()
	taskDone(t)
	waitReleased()
}

//go:norace
func taskPanicked(t *Task, r any) {
	t.panicked = r
	buf := make([]byte, 8192)
	t.stack = buf[:runtime.Stack(buf, false)]
}

//go:norace
func taskDone(t *Task) {
	t.rkind = reqDone
	setTurn(ctrlID)
}

type chase struct {
	active bool
	victim *Task
	budget int
}

// ctrlLoop is the controller. It is norace because it reads the tasks' mailboxes; all simulator state it
// updates through s is only ever touched on this goroutine.
//
//go:norace
func ctrlLoop(s *Sim, sched SchedPolicy, tasks []*Task, res *RunResult) {
	var ch chase
	// PCT: initial priorities are a hashed permutation; change points lower the running task's priority
	if sched.Kind == SchedPCT {
		for i, t := range tasks {
			t.prio = 1000 + s.decide(t.uid, 0, 91, 1000) + i
		}
	}
	next := pickFirst(s, sched, tasks)
	var step uint32
	for next != nil {
		setRunning(next)
		setCur(next.ctx)
		setTurn(next.id)
		if !ctrlWait() {
			res.Stuck = true
			return
		}
		t := next
		step++
		res.Steps++
		t.steps++
		s.Stats.Yields++
		// piggy-backed New()
		if t.newObj != nil {
			c := t.ctx
			if c != nil {
				s.noteNew(t.id, c.UID, c.Kind, t.newPool, t.newObj)
			}
			t.newObj, t.newPool = nil, nil
		}
		var uid uint32
		var kind uint16
		if c := t.ctx; c != nil {
			uid, kind = c.UID, c.Kind
		}
		wasPut := false
		switch t.rkind {
		case reqGet:
			c := t.ctx
			c.Gets++
			t.resp = s.get(t.id, uid, kind, c.Gets, t.rpool)
		case reqPut:
			c := t.ctx
			c.Puts++
			s.put(t.id, uid, kind, c.Puts, t.rpool, t.robj)
			wasPut = true
		case reqYield:
			s.Event(Event{Kind: EvYield, Task: t.id, Op: uid, Aux: t.rsite})
		case reqBlocked:
			t.state = stBlocked
			t.mu = t.rmu
			s.Stats.MutexBlocked++
			s.Event(Event{Kind: EvBlocked, Task: t.id, Op: uid})
		case reqUnlock:
			for _, o := range tasks {
				if o.state == stBlocked && o.mu == t.rmu {
					o.state = stRunnable
					o.mu = nil
				}
			}
			s.Event(Event{Kind: EvUnlock, Task: t.id, Op: uid, Aux: t.rsite})
		case reqDone:
			t.state = stDone
			s.Event(Event{Kind: EvDone, Task: t.id})
		}
		t.rkind = reqNone
		next = pickNext(s, sched, tasks, t, step, wasPut, &ch)
		if next == nil {
			alldone := true
			for _, o := range tasks {
				if o.state != stDone {
					alldone = false
				}
			}
			if !alldone {
				res.Deadlock = true
			}
			return
		}
		if next != t {
			s.Stats.Switches++
			s.SwitchSites[switchSite(t)]++
			s.Event(Event{Kind: EvSwitch, Task: t.id, Aux: int(next.id)})
		}
	}
}

//go:norace
func switchSite(t *Task) int {
	// a signature of where the running task was when it lost the baton
	k := 0
	if c := t.ctx; c != nil {
		k = int(c.Kind)<<20 | int(c.Gets+c.Puts)&0xfffff
	}
	return k
}

//go:norace
func runnable(tasks []*Task, buf []*Task) []*Task {
	buf = buf[:0]
	for _, t := range tasks {
		if t.state == stRunnable {
			buf = append(buf, t)
		}
	}
	return buf
}

//go:norace
func pickFirst(s *Sim, sched SchedPolicy, tasks []*Task) *Task {
	if len(tasks) == 0 {
		return nil
	}
	if sched.Kind == SchedPCT {
		return maxPrio(tasks)
	}
	return tasks[s.decide(0, 0, 17, len(tasks))]
}

//go:norace
func maxPrio(tasks []*Task) *Task {
	var best *Task
	for _, t := range tasks {
		if t.state != stRunnable {
			continue
		}
		if best == nil || t.prio > best.prio {
			best = t
		}
	}
	return best
}

//go:norace
func pickNext(s *Sim, sched SchedPolicy, tasks []*Task, t *Task, step uint32, wasPut bool, ch *chase) *Task {
	var buf [64]*Task
	rs := runnable(tasks, buf[:0])
	if len(rs) == 0 {
		return nil
	}
	stay := t.state == stRunnable
	switch sched.Kind {
	case SchedRoundRobin:
		return otherTask(s, rs, t, 3)
	case SchedPCT:
		if sched.Depth > 0 && s.decide(t.uid, t.steps, 5, 1000) < sched.SwitchPM {
			t.prio = -int(step) // change point: the running task drops below everybody
		}
		return maxPrio(tasks)
	case SchedChaser:
		if ch.active {
			ch.budget--
			if ch.budget <= 0 || !stay {
				ch.active = false
				if ch.victim.state == stRunnable {
					return ch.victim
				}
			} else if stay {
				return t
			}
		}
		if wasPut && stay && len(rs) > 1 && s.decide(t.uid, t.steps, 7, 1000) < sched.ChasePM {
			ch.active = true
			ch.victim = t
			ch.budget = 2 + s.decide(t.uid, t.steps, 9, 60)
			return otherTask(s, rs, t, 11)
		}
		if stay && s.decide(t.uid, t.steps, 13, 1000) >= sched.SwitchPM {
			return t
		}
		return otherTask(s, rs, t, 15)
	default: // SchedRandom
		if stay && s.decide(t.uid, t.steps, 13, 1000) >= sched.SwitchPM {
			return t
		}
		return otherTask(s, rs, t, 15)
	}
}

// otherTask returns a runnable task different from t, if any.
//
//go:norace
func otherTask(s *Sim, rs []*Task, t *Task, salt uint64) *Task {
	if len(rs) == 1 {
		return rs[0]
	}
	for tries := 0; tries < 4; tries++ {
		c := rs[s.decide(t.uid, t.steps, salt+uint64(tries), len(rs))]
		if c != t {
			return c
		}
	}
	for _, c := range rs {
		if c != t {
			return c
		}
	}
	return rs[0]
}

// Stamp returns the next value of a global event sequence number. Only one task runs at a time, so the numbers are
// totally ordered consistently with the real execution order; used to stamp invoke / return events of recorded histories.
//
//go:norace
func Stamp() uint64 {
	stampCtr++
	return stampCtr
}

//go:norace
func ResetStamp() { stampCtr = 0 }

var stampCtr uint64

// ---- channels of package validate (R3): a blocking channel operation must never block while holding the baton ----

func chanKey(ch any) unsafe.Pointer {
	return unsafe.Pointer(reflect.ValueOf(ch).Pointer())
}

// Recv replaces `<-ch`: a scheduling point, then a non-blocking receive retried until it succeeds; while the channel is
// not ready the task is marked blocked on it and somebody else runs.
func Recv[T any](ch <-chan T, site int) T {
	v, _ := RecvOK(ch, site)
	return v
}

func RecvOK[T any](ch <-chan T, site int) (T, bool) {
	t := runningTask()
	if t == nil {
		if !singleCaller() {
			v, ok := <-ch
			return v, ok
		}
		select {
		case v, ok := <-ch:
			return v, ok
		default:
			inlineDeadlock("channel receive", site)
		}
	}
	t.yieldAt(site)
	if ch == nil {
		for {
			t.blockOn(nil) // receive from a nil channel blocks forever
		}
	}
	for {
		select {
		case v, ok := <-ch:
			t.unlocked(chanKey(ch), site)
			return v, ok
		default:
			t.blockOn(chanKey(ch))
		}
	}
}

// Send replaces `ch <- v`.
func Send[T any](ch chan<- T, v T, site int) {
	t := runningTask()
	if t == nil {
		if !singleCaller() {
			ch <- v
			return
		}
		select {
		case ch <- v:
		default:
			inlineDeadlock("channel send", site)
		}
		return
	}
	t.yieldAt(site)
	for {
		select {
		case ch <- v:
			t.unlocked(chanKey(ch), site)
			return
		default:
			t.blockOn(chanKey(ch))
		}
	}
}

// Close replaces close(ch).
func Close[T any](ch chan<- T, site int) {
	close(ch)
	if t := runningTask(); t != nil {
		t.unlocked(chanKey(ch), site)
	}
}
