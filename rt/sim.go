// Package rt is the runtime of the deterministic simulator. Rewritten copies of
// go-openapi/validate (and of the go-openapi dependencies, for map order) call
// into it at every seam: sync.Pool Get/Put, range-over-map, and sync/atomic
// synchronisation points. One Sim value decides every pool outcome; the
// scheduler (sched.go) decides which task runs.
//
// Rule kept throughout this package: memory shared between a task goroutine and
// the controller goroutine (Task, OpCtx, the baton word) is only touched inside
// //go:norace functions and never through sync primitives, so the simulator adds
// no happens-before edge the race detector could see. Simulator state proper
// (Sim) is touched only by the goroutine that currently holds the baton's
// controller role (multi-task runs) or by the single task (inline runs).
package rt

import (
	"fmt"
	"os"
	"reflect"
	"strconv"
	"sync"
)

// OpCtx is the context of the public-API operation a task is currently executing.
type OpCtx struct {
	OrderSeed uint64 // seed of the map-iteration orders seen by this operation; 0 = sorted
	Oracle    bool   // pool in oracle mode: Get = New(), Put = discard, no scheduling points
	UID       uint32 // stable id of the operation inside the scenario (hashed choices are keyed by it)
	Kind      uint16 // operation kind (recycling-edge bookkeeping)
	Task      int32
	Gets      uint32
	Puts      uint32
	Yields    uint32
}

// cur is the context of the running task. Inline runs: set by BeginOp. Multi-task runs: switched by
// the controller together with the baton.
var cur *OpCtx

func init() {
	// self-test aid: run foreign code (the repository's own test-suite on the rewritten copy) under a fixed seeded
	// map order, pools and scheduling untouched
	if v := os.Getenv("VERIF_ORDER_SEED"); v != "" {
		if n, err := strconv.ParseUint(v, 10, 64); err == nil {
			cur = &OpCtx{OrderSeed: n}
		}
	}
}

//go:norace
func curCtx() *OpCtx { return cur }

//go:norace
func setCur(c *OpCtx) { cur = c }

//go:norace
func orderSeed() (uint64, bool) {
	c := cur
	if c == nil {
		return 0, false
	}
	return c.OrderSeed, true
}

//go:norace
func noteIter() { IterCalls++ }

//go:norace
func notePermuted() { IterPermuted++ }

//go:norace
func noteUnordered() { IterUnordered++ }

// BeginOp makes c the context of the calling task. EndOp clears it (pass-through behaviour outside operations).
//
//go:norace
func BeginOp(c *OpCtx) {
	if t := runningTask(); t != nil {
		t.ctx = c
	}
	cur = c
}

//go:norace
func EndOp() {
	if t := runningTask(); t != nil {
		t.ctx = nil
	}
	cur = nil
}

// Pool policies (chosen per run, swarm style). Everything a policy does is within sync.Pool's contract:
// Get may return any object previously Put, or New(); Put may drop its argument; the pool may be emptied at any time.
const (
	PoolLIFO = iota
	PoolFIFO
	PoolRandom
	PoolForeign // prefer an object last owned by another operation
	PoolModes
)

type PoolPolicy struct {
	// Affinity: a Get only takes objects that the asking task itself put back (otherwise New()), as the per-P caches of
	// a real sync.Pool mostly do. Without hand-overs between tasks the pool adds no happens-before edges between them,
	// so that races on OTHER shared state are not ordered away by an unrelated Put->Get pair.
	Affinity bool `json:"affinity,omitempty"`
	Mode     int  `json:"mode"`
	MissPM   int  `json:"miss_pm"`  // per-mille of Gets answered by New() although a free object exists
	DropPM   int  `json:"drop_pm"`  // per-mille of Puts that drop the object
	ClearPM  int  `json:"clear_pm"` // per-mille of operation boundaries at which all pools are emptied
}

type objMeta struct {
	id       int
	pool     int
	free     int // copies currently in the free list (>1 after a double Put)
	borrowed int // current holders (>1 = the same object handed to two owners)
	lastOp   uint32
	lastKind uint16
	lastTask int32
	puts     int
}

type simPool struct {
	idx  int
	p    *sync.Pool
	free []any
}

// Edge is one recycling edge: an object of pool Pool last used by an operation of kind From is handed to one of kind To.
type Edge struct {
	Pool     int
	From, To uint16
}

type Stats struct {
	Gets, Recycled, FreshEmpty, ForcedMiss uint64
	Puts, Drops, Clears                    uint64
	DoublePuts, DualOwner, NilPuts         uint64
	ForeignRecycles, CrossTaskRecycles     uint64
	UnknownOriginPuts                      uint64
	Yields, Switches                       uint64
	MutexBlocked                           uint64
}

// Event kinds of the log.
const (
	EvGetFresh = iota + 1
	EvGetMiss
	EvGetRecycled
	EvPut
	EvPutDrop
	EvPutDouble
	EvClear
	EvYield
	EvSwitch
	EvBlocked
	EvUnlock
	EvOpBegin
	EvOpEnd
	EvDone
	EvFault
)

var evNames = [...]string{"", "get-fresh", "get-miss", "get-recycled", "put", "put-drop", "put-double", "clear", "yield", "switch", "blocked", "unlock", "op-begin", "op-end", "done", "fault"}

type Event struct {
	Kind int
	Task int32
	Op   uint32
	Pool int
	Obj  int
	Aux  int
}

func (e Event) String() string {
	k := "?"
	if e.Kind > 0 && e.Kind < len(evNames) {
		k = evNames[e.Kind]
	}
	return fmt.Sprintf("%s t=%d op=%d pool=%d obj=%d aux=%d", k, e.Task, e.Op, e.Pool, e.Obj, e.Aux)
}

// Sim is the simulated world of one run.
type Sim struct {
	Seed  uint64
	Pol   PoolPolicy
	pools map[*sync.Pool]*simPool
	plist []*simPool
	objs  map[uintptr]*objMeta
	nobj  int
	Stats Stats
	Edges map[Edge]int
	Hash  uint64 // running hash of the event log
	NEv   uint64
	Keep  bool // keep the events (replay / trace), not only their hash
	Log   []Event
	// switch sites seen (site -> count), for schedule signatures
	SwitchSites map[int]int
	Names       map[*sync.Pool]string
}

func NewSim(seed uint64, pol PoolPolicy) *Sim {
	return &Sim{
		Seed:        seed,
		Pol:         pol,
		pools:       map[*sync.Pool]*simPool{},
		objs:        map[uintptr]*objMeta{},
		Edges:       map[Edge]int{},
		Hash:        14695981039346656037,
		SwitchSites: map[int]int{},
	}
}

// the simulator in charge; nil = pass-through (rewritten code behaves like the original)
var theSim *Sim

//go:norace
func Install(s *Sim) { theSim = s }

//go:norace
func installed() *Sim { return theSim }

func (s *Sim) Event(e Event) {
	h := s.Hash
	for _, v := range [...]uint64{uint64(e.Kind), uint64(uint32(e.Task)), uint64(e.Op), uint64(uint32(e.Pool)), uint64(uint32(e.Obj)), uint64(uint32(e.Aux))} {
		h ^= v
		h *= 1099511628211
	}
	s.Hash = h
	s.NEv++
	if s.Keep {
		s.Log = append(s.Log, e)
	}
}

func (s *Sim) pool(p *sync.Pool) *simPool {
	sp := s.pools[p]
	if sp == nil {
		sp = &simPool{idx: len(s.plist), p: p}
		s.pools[p] = sp
		s.plist = append(s.plist, sp)
	}
	return sp
}

// PoolName gives a printable name for pool index i.
func (s *Sim) PoolName(i int) string {
	if i < 0 || i >= len(s.plist) {
		return "?"
	}
	if n, ok := s.Names[s.plist[i].p]; ok {
		return n
	}
	return fmt.Sprintf("pool#%d", i)
}

// choose is a pure function of (run seed, operation uid, per-operation counter, salt): robust under removal of other operations.
func (s *Sim) choose(uid, counter uint32, salt uint64, n int) int {
	if n <= 1 {
		return 0
	}
	h := mix64(s.Seed ^ mix64(uint64(uid)<<32|uint64(counter)) ^ mix64(salt+0x51ed270b))
	return int(h % uint64(n))
}

func ptrOf(x any) uintptr {
	v := reflect.ValueOf(x)
	switch v.Kind() {
	case reflect.Ptr, reflect.Map, reflect.Slice, reflect.Chan, reflect.Func, reflect.UnsafePointer:
		return v.Pointer()
	}
	return 0
}

// get returns a previously Put object, or nil when the caller has to call New().
func (s *Sim) get(task int32, uid uint32, kind uint16, counter uint32, p *sync.Pool) any {
	sp := s.pool(p)
	s.Stats.Gets++
	n := len(sp.free)
	if n == 0 {
		s.Stats.FreshEmpty++
		s.Event(Event{Kind: EvGetFresh, Task: task, Op: uid, Pool: sp.idx})
		return nil
	}
	if s.Pol.MissPM > 0 && s.choose(uid, counter, 1, 1000) < s.Pol.MissPM {
		s.Stats.ForcedMiss++
		s.Event(Event{Kind: EvGetMiss, Task: task, Op: uid, Pool: sp.idx})
		return nil
	}
	idx := n - 1
	if s.Pol.Affinity {
		idx = -1
		for i := n - 1; i >= 0; i-- {
			if m := s.objs[ptrOf(sp.free[i])]; m != nil && m.lastTask == task {
				idx = i
				break
			}
		}
		if idx < 0 {
			s.Stats.ForcedMiss++
			s.Event(Event{Kind: EvGetMiss, Task: task, Op: uid, Pool: sp.idx})
			return nil
		}
	} else {
		idx = s.pickFree(sp, uid, counter, n)
	}
	return s.take(sp, idx, n, task, uid, kind)
}

// pickFree chooses a free object according to the pool mode.
func (s *Sim) pickFree(sp *simPool, uid, counter uint32, n int) int {
	idx := n - 1
	switch s.Pol.Mode {
	case PoolLIFO:
		if s.choose(uid, counter, 2, 10) == 0 {
			idx = s.choose(uid, counter, 3, n)
		}
	case PoolFIFO:
		idx = 0
		if s.choose(uid, counter, 2, 10) == 0 {
			idx = s.choose(uid, counter, 3, n)
		}
	case PoolRandom:
		idx = s.choose(uid, counter, 3, n)
	case PoolForeign:
		found := false
		for i := n - 1; i >= 0; i-- {
			if m := s.objs[ptrOf(sp.free[i])]; m != nil && m.lastOp != uid {
				idx, found = i, true
				break
			}
		}
		if !found && s.choose(uid, counter, 2, 4) == 0 {
			idx = s.choose(uid, counter, 3, n)
		}
	}
	return idx
}

func (s *Sim) take(sp *simPool, idx, n int, task int32, uid uint32, kind uint16) any {
	x := sp.free[idx]
	copy(sp.free[idx:], sp.free[idx+1:])
	sp.free[n-1] = nil
	sp.free = sp.free[:n-1]
	s.Stats.Recycled++
	oid := -1
	if m := s.objs[ptrOf(x)]; m != nil {
		oid = m.id
		m.free--
		if m.borrowed > 0 {
			s.Stats.DualOwner++
		}
		m.borrowed++
		s.Edges[Edge{Pool: sp.idx, From: m.lastKind, To: kind}]++
		if m.lastOp != uid {
			s.Stats.ForeignRecycles++
		}
		if m.lastTask != task {
			s.Stats.CrossTaskRecycles++
		}
		m.lastOp, m.lastKind, m.lastTask = uid, kind, task
	}
	s.Event(Event{Kind: EvGetRecycled, Task: task, Op: uid, Pool: sp.idx, Obj: oid})
	return x
}

// noteNew registers an object obtained from New().
func (s *Sim) noteNew(task int32, uid uint32, kind uint16, p *sync.Pool, x any) {
	a := ptrOf(x)
	if a == 0 {
		return
	}
	sp := s.pool(p)
	s.nobj++
	s.objs[a] = &objMeta{id: s.nobj, pool: sp.idx, borrowed: 1, lastOp: uid, lastKind: kind, lastTask: task}
}

func (s *Sim) put(task int32, uid uint32, kind uint16, counter uint32, p *sync.Pool, x any) {
	if x == nil {
		return // exactly sync.Pool: an untyped nil is ignored (a typed nil pointer is stored, as sync.Pool does)
	}
	sp := s.pool(p)
	s.Stats.Puts++
	a := ptrOf(x)
	if a == 0 {
		s.Stats.NilPuts++
		sp.free = append(sp.free, x)
		s.Event(Event{Kind: EvPut, Task: task, Op: uid, Pool: sp.idx, Obj: 0})
		return
	}
	m := s.objs[a]
	if m == nil {
		// an object that did not come out of this pool (allocated with new and redeemed later)
		s.Stats.UnknownOriginPuts++
		s.nobj++
		m = &objMeta{id: s.nobj, pool: sp.idx, borrowed: 1}
		s.objs[a] = m
	}
	m.lastOp, m.lastKind, m.lastTask = uid, kind, task
	m.puts++
	if m.borrowed > 0 {
		m.borrowed--
	}
	if m.free > 0 {
		// double Put of a live object: recorded; it steers the run (both copies are handed out), the verdict
		// always comes from an observable outcome difference or a data race
		s.Stats.DoublePuts++
		m.free++
		sp.free = append(sp.free, x)
		s.Event(Event{Kind: EvPutDouble, Task: task, Op: uid, Pool: sp.idx, Obj: m.id})
		return
	}
	if s.Pol.DropPM > 0 && m.borrowed == 0 && s.choose(uid, counter, 7, 1000) < s.Pol.DropPM {
		s.Stats.Drops++
		delete(s.objs, a)
		s.Event(Event{Kind: EvPutDrop, Task: task, Op: uid, Pool: sp.idx, Obj: m.id})
		return
	}
	m.free++
	sp.free = append(sp.free, x)
	s.Event(Event{Kind: EvPut, Task: task, Op: uid, Pool: sp.idx, Obj: m.id})
}

// ClearAll empties every pool (what a GC cycle does to sync.Pool).
func (s *Sim) ClearAll() {
	for _, sp := range s.plist {
		for i, x := range sp.free {
			if m := s.objs[ptrOf(x)]; m != nil {
				m.free--
				if m.free <= 0 && m.borrowed == 0 {
					delete(s.objs, ptrOf(x))
				}
			}
			sp.free[i] = nil
		}
		sp.free = sp.free[:0]
	}
	s.Stats.Clears++
	s.Event(Event{Kind: EvClear})
}

// MaybeClear is called at operation boundaries.
func (s *Sim) MaybeClear(uid uint32) {
	if s.Pol.ClearPM > 0 && s.choose(uid, 0, 11, 1000) < s.Pol.ClearPM {
		s.ClearAll()
	}
}

// FreeCount returns the number of free objects over all pools (reach probe).
func (s *Sim) FreeCount() int {
	n := 0
	for _, sp := range s.plist {
		n += len(sp.free)
	}
	return n
}

// ---- the seams called by rewritten code ----

// PoolGet replaces (*sync.Pool).Get in package validate.
func PoolGet(p *sync.Pool) any {
	c := curCtx()
	if c != nil && ctxOracle(c) {
		// oracle mode never touches any pool, simulated or real
		if p.New == nil {
			return nil
		}
		return p.New()
	}
	s := installed()
	if c == nil || s == nil {
		return p.Get()
	}
	if t := runningTask(); t != nil {
		return t.poolGet(p)
	}
	c.Gets++
	x := s.get(c.Task, c.UID, c.Kind, c.Gets, p)
	if x == nil {
		if p.New == nil {
			return nil
		}
		x = p.New()
		s.noteNew(c.Task, c.UID, c.Kind, p, x)
	}
	return x
}

// PoolPut replaces (*sync.Pool).Put in package validate.
func PoolPut(p *sync.Pool, x any) {
	c := curCtx()
	if c != nil && ctxOracle(c) {
		return
	}
	s := installed()
	if c == nil || s == nil {
		p.Put(x)
		return
	}
	if t := runningTask(); t != nil {
		t.poolPut(p, x)
		return
	}
	c.Puts++
	s.put(c.Task, c.UID, c.Kind, c.Puts, p, x)
}

//go:norace
func ctxOracle(c *OpCtx) bool { return c.Oracle }
