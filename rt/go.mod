module verif.local/rt

go 1.20
