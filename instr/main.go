// instr rewrites scratch copies of go-openapi/validate and of its go-openapi dependencies so that every source of
// nondeterminism the claimed properties depend on goes through verif.local/rt:
//
//	R1  (*sync.Pool).Get/Put called from package validate      -> rt.PoolGet / rt.PoolPut
//	R2  range over a map (validate, post, spec, analysis, ...)   -> seeded iteration order (rt.Iter*)
//	R3  sync / sync/atomic operations in package validate        -> scheduling point (+ TryLock loop for mutexes)
//
// plus one generated in-package file with the few accessors the harness needs. Type-directed (go/packages + go/types).
// Anything it does not understand is a hard error (exit 2): never a silent skip.
package main

import (
	"bytes"
	"encoding/json"
	"flag"
	"fmt"
	"go/ast"
	"go/format"
	"go/token"
	"go/types"
	"os"
	"path/filepath"
	"sort"
	"strings"

	"golang.org/x/tools/go/ast/astutil"
	"golang.org/x/tools/go/packages"
)

const rtPath = "verif.local/rt"
const rtName = "verifrt"

type site struct {
	ID   int    `json:"id"`
	Kind string `json:"kind"`
	Pkg  string `json:"pkg"`
	File string `json:"file"`
	Line int    `json:"line"`
	Note string `json:"note,omitempty"`
}

var (
	sites   []site
	fset    *token.FileSet
	fatalN  int
	summary = map[string]int{}
)

func fatalf(format string, a ...any) {
	fmt.Fprintf(os.Stderr, "instr: "+format+"\n", a...)
	fatalN++
}

func newSite(kind, pkg string, pos token.Pos, note string) int {
	p := fset.Position(pos)
	id := len(sites) + 1
	sites = append(sites, site{ID: id, Kind: kind, Pkg: pkg, File: filepath.Base(p.Filename), Line: p.Line, Note: note})
	summary[kind]++
	return id
}

func main() {
	dir := flag.String("dir", ".", "directory of the harness module (its replace directives point at the scratch copies)")
	valPkg := flag.String("validate", "github.com/go-openapi/validate", "import path of the package that gets R1, R3 and the generated file")
	sitesOut := flag.String("sites", "", "write the site table here (JSON)")
	flag.Parse()
	patterns := flag.Args()
	if len(patterns) == 0 {
		fmt.Fprintln(os.Stderr, "usage: instr -dir D [-sites f] <package patterns>")
		os.Exit(2)
	}
	cfg := &packages.Config{
		Mode: packages.NeedName | packages.NeedFiles | packages.NeedCompiledGoFiles | packages.NeedSyntax |
			packages.NeedTypes | packages.NeedTypesInfo | packages.NeedImports | packages.NeedModule,
		Dir:   *dir,
		Tests: false,
		Env:   os.Environ(),
	}
	pkgs, err := packages.Load(cfg, patterns...)
	if err != nil {
		fmt.Fprintln(os.Stderr, "instr: load:", err)
		os.Exit(2)
	}
	sort.Slice(pkgs, func(i, j int) bool { return pkgs[i].PkgPath < pkgs[j].PkgPath })
	nerr := 0
	for _, p := range pkgs {
		for _, e := range p.Errors {
			fmt.Fprintf(os.Stderr, "instr: %s: %v\n", p.PkgPath, e)
			nerr++
		}
	}
	if nerr > 0 {
		os.Exit(2)
	}
	foundVal := false
	for _, p := range pkgs {
		fset = p.Fset
		isVal := p.PkgPath == *valPkg
		if isVal {
			foundVal = true
		}
		files := append([]*ast.File(nil), p.Syntax...)
		sort.Slice(files, func(i, j int) bool {
			return fset.Position(files[i].Pos()).Filename < fset.Position(files[j].Pos()).Filename
		})
		for _, f := range files {
			name := fset.Position(f.Pos()).Filename
			if strings.HasSuffix(name, "_test.go") {
				continue
			}
			r := &rewriter{pkg: p, file: f, isVal: isVal}
			r.run()
			if r.changed {
				astutil.AddNamedImport(fset, f, rtName, rtPath)
				var buf bytes.Buffer
				if err := format.Node(&buf, fset, f); err != nil {
					fatalf("%s: print: %v", name, err)
					continue
				}
				if err := os.WriteFile(name, buf.Bytes(), 0o644); err != nil {
					fatalf("%s: %v", name, err)
				}
			}
		}
		if isVal {
			writeGenerated(p)
		}
	}
	if !foundVal {
		fatalf("package %s not among the loaded packages", *valPkg)
	}
	if fatalN > 0 {
		os.Exit(2)
	}
	if *sitesOut != "" {
		b, _ := json.MarshalIndent(map[string]any{"sites": sites, "summary": summary}, "", " ")
		if err := os.WriteFile(*sitesOut, b, 0o644); err != nil {
			fmt.Fprintln(os.Stderr, "instr:", err)
			os.Exit(2)
		}
	}
	keys := make([]string, 0, len(summary))
	for k := range summary {
		keys = append(keys, k)
	}
	sort.Strings(keys)
	for _, k := range keys {
		fmt.Printf("instr: %-12s %d\n", k, summary[k])
	}
}

type rewriter struct {
	pkg     *packages.Package
	file    *ast.File
	isVal   bool
	changed bool
	nIter   int
	comm    map[ast.Node]bool
}

func rtSel(name string) *ast.SelectorExpr {
	return &ast.SelectorExpr{X: ast.NewIdent(rtName), Sel: ast.NewIdent(name)}
}

func intLit(n int) *ast.BasicLit {
	return &ast.BasicLit{Kind: token.INT, Value: fmt.Sprint(n)}
}

func (r *rewriter) run() {
	info := r.pkg.TypesInfo
	astutil.Apply(r.file, nil, func(c *astutil.Cursor) bool {
		switch n := c.Node().(type) {
		case *ast.RangeStmt:
			if st := r.rewriteRange(n, info); st != nil {
				c.Replace(st)
				r.changed = true
			}
		case *ast.CallExpr:
			if r.isVal {
				if ne := r.rewriteCall(n, info); ne != nil {
					c.Replace(ne)
					r.changed = true
				} else if id, ok := n.Fun.(*ast.Ident); ok && id.Name == "close" && len(n.Args) == 1 {
					if _, isBuiltin := info.Uses[id].(*types.Builtin); isBuiltin {
						sid := newSite("chan", r.pkg.PkgPath, n.Pos(), "close")
						c.Replace(&ast.CallExpr{Fun: rtSel("Close"), Args: []ast.Expr{n.Args[0], intLit(sid)}})
						r.changed = true
					}
				}
			}
		case *ast.UnaryExpr:
			if r.isVal && n.Op == token.ARROW {
				if _, inSelect := c.Parent().(*ast.CommClause); inSelect {
					return true
				}
				if es, ok := c.Parent().(*ast.ExprStmt); ok {
					_ = es
				}
				if as, ok := c.Parent().(*ast.AssignStmt); ok && len(as.Lhs) == 2 && len(as.Rhs) == 1 {
					if r.inCommClause(as) {
						return true
					}
					sid := newSite("chan", r.pkg.PkgPath, n.Pos(), "recv,ok")
					c.Replace(&ast.CallExpr{Fun: rtSel("RecvOK"), Args: []ast.Expr{n.X, intLit(sid)}})
					r.changed = true
					return true
				}
				if r.inCommClauseExpr(n) {
					return true
				}
				sid := newSite("chan", r.pkg.PkgPath, n.Pos(), "recv")
				c.Replace(&ast.CallExpr{Fun: rtSel("Recv"), Args: []ast.Expr{n.X, intLit(sid)}})
				r.changed = true
			}
		case *ast.SendStmt:
			if r.isVal {
				if _, inSelect := c.Parent().(*ast.CommClause); inSelect {
					return true
				}
				sid := newSite("chan", r.pkg.PkgPath, n.Pos(), "send")
				c.Replace(&ast.ExprStmt{X: &ast.CallExpr{Fun: rtSel("Send"), Args: []ast.Expr{n.Chan, n.Value, intLit(sid)}}})
				r.changed = true
			}
		case *ast.SelectStmt:
			if r.isVal {
				hasDefault := false
				for _, cl := range n.Body.List {
					if cc, ok := cl.(*ast.CommClause); ok && cc.Comm == nil {
						hasDefault = true
					}
				}
				if !hasDefault {
					fatalf("%s: blocking select in package validate is not modelled: extend the instrumenter", fset.Position(n.Pos()))
				}
			}
		case *ast.GoStmt:
			if r.isVal {
				fatalf("%s: package validate starts a goroutine: not modelled by the baton scheduler: extend the instrumenter", fset.Position(n.Pos()))
			}
		}
		return true
	})
}

// comm clauses of a select: their channel operations are left alone (only non-blocking selects are accepted)
func (r *rewriter) commStmts() map[ast.Node]bool {
	if r.comm != nil {
		return r.comm
	}
	r.comm = map[ast.Node]bool{}
	ast.Inspect(r.file, func(n ast.Node) bool {
		if cc, ok := n.(*ast.CommClause); ok && cc.Comm != nil {
			ast.Inspect(cc.Comm, func(m ast.Node) bool {
				if m != nil {
					r.comm[m] = true
				}
				return true
			})
		}
		return true
	})
	return r.comm
}

func (r *rewriter) inCommClause(n ast.Node) bool     { return r.commStmts()[n] }
func (r *rewriter) inCommClauseExpr(n ast.Node) bool { return r.commStmts()[n] }

func isBlank(e ast.Expr) bool {
	id, ok := e.(*ast.Ident)
	return ok && id.Name == "_"
}

func (r *rewriter) rewriteRange(n *ast.RangeStmt, info *types.Info) ast.Stmt {
	tv, ok := info.Types[n.X]
	if !ok || tv.Type == nil {
		return nil
	}
	under := tv.Type.Underlying()
	if tp, ok := under.(*types.TypeParam); ok {
		_ = tp
		return nil
	}
	if _, isChan := under.(*types.Chan); isChan && r.isVal {
		fatalf("%s: range over a channel in package validate is not modelled: extend the instrumenter", fset.Position(n.Pos()))
		return nil
	}
	if _, isMap := under.(*types.Map); !isMap {
		return nil
	}
	hasK := n.Key != nil && !isBlank(n.Key)
	hasV := n.Value != nil && !isBlank(n.Value)
	if !hasK && !hasV {
		return nil // `for range m`: order cannot be observed
	}
	id := newSite("maprange", r.pkg.PkgPath, n.Pos(), "")
	r.nIter++
	itName := fmt.Sprintf("verifIt%d", id)
	it := ast.NewIdent(itName)
	call := func(fn string) *ast.CallExpr {
		return &ast.CallExpr{Fun: rtSel(fn), Args: []ast.Expr{n.X, intLit(id)}}
	}
	addr := func(e ast.Expr) ast.Expr { return &ast.UnaryExpr{Op: token.AND, X: e} }
	var init ast.Stmt
	var cond ast.Expr
	method := func(name string, args ...ast.Expr) ast.Expr {
		return &ast.CallExpr{Fun: &ast.SelectorExpr{X: ast.NewIdent(itName), Sel: ast.NewIdent(name)}, Args: args}
	}
	if n.Tok == token.DEFINE {
		switch {
		case hasK && hasV:
			init = &ast.AssignStmt{Lhs: []ast.Expr{it, n.Key, n.Value}, Tok: token.DEFINE, Rhs: []ast.Expr{call("Iter3")}}
			cond = method("Next", addr(n.Key), addr(n.Value))
		case hasK:
			init = &ast.AssignStmt{Lhs: []ast.Expr{it, n.Key}, Tok: token.DEFINE, Rhs: []ast.Expr{call("IterK")}}
			cond = method("NextK", addr(n.Key))
		default:
			init = &ast.AssignStmt{Lhs: []ast.Expr{it, n.Value}, Tok: token.DEFINE, Rhs: []ast.Expr{call("IterV")}}
			cond = method("NextV", addr(n.Value))
		}
	} else {
		// assignment form: the loop variables are existing addressable operands
		for _, e := range []ast.Expr{n.Key, n.Value} {
			if e == nil || isBlank(e) {
				continue
			}
			if _, isIdx := e.(*ast.IndexExpr); isIdx {
				if tv, ok := info.Types[e.(*ast.IndexExpr).X]; ok {
					if _, isMap := tv.Type.Underlying().(*types.Map); isMap {
						fatalf("%s: range assigns to a map element (not addressable): extend the instrumenter", fset.Position(n.Pos()))
						return nil
					}
				}
			}
		}
		init = &ast.AssignStmt{Lhs: []ast.Expr{it}, Tok: token.DEFINE, Rhs: []ast.Expr{call("IterA")}}
		switch {
		case hasK && hasV:
			cond = method("Next", addr(n.Key), addr(n.Value))
		case hasK:
			cond = method("NextK", addr(n.Key))
		default:
			cond = method("NextV", addr(n.Value))
		}
	}
	return &ast.ForStmt{For: n.For, Init: init, Cond: cond, Body: n.Body}
}

// namedOf returns the package path and name of the (possibly pointer-to) named type t.
func namedOf(t types.Type) (string, string) {
	if p, ok := t.(*types.Pointer); ok {
		t = p.Elem()
	}
	if n, ok := t.(*types.Named); ok && n.Obj() != nil && n.Obj().Pkg() != nil {
		return n.Obj().Pkg().Path(), n.Obj().Name()
	}
	return "", ""
}

// receiverPointer builds an expression of pointer type for the receiver of a selection made on x (following the
// implicit embedded-field path), e.g. p.Get  ->  p.Pool ; reDict.Load -> &reDict ; cacheMutex.Lock -> cacheMutex.
func receiverPointer(x ast.Expr, sel *types.Selection) (ast.Expr, bool) {
	e := x
	t := sel.Recv()
	idx := sel.Index()
	for _, i := range idx[:len(idx)-1] {
		// field step
		st := t
		if p, ok := st.Underlying().(*types.Pointer); ok {
			st = p.Elem()
		}
		s, ok := st.Underlying().(*types.Struct)
		if !ok {
			return nil, false
		}
		f := s.Field(i)
		e = &ast.SelectorExpr{X: e, Sel: ast.NewIdent(f.Name())}
		t = f.Type()
	}
	if _, isPtr := t.Underlying().(*types.Pointer); isPtr {
		return e, true
	}
	return &ast.UnaryExpr{Op: token.AND, X: e}, true
}

func (r *rewriter) rewriteCall(n *ast.CallExpr, info *types.Info) ast.Expr {
	se, ok := n.Fun.(*ast.SelectorExpr)
	if !ok {
		return nil
	}
	// package-level function of sync/atomic: atomic.AddInt32(&x, 1) -> atomic.AddInt32(rt.Y(site, &x), 1)
	if id, ok := se.X.(*ast.Ident); ok {
		if pn, ok := info.Uses[id].(*types.PkgName); ok {
			if pn.Imported().Path() == "sync/atomic" && len(n.Args) > 0 {
				sid := newSite("atomicfn", r.pkg.PkgPath, n.Pos(), se.Sel.Name)
				n.Args[0] = &ast.CallExpr{Fun: rtSel("Y"), Args: []ast.Expr{intLit(sid), n.Args[0]}}
				r.changed = true
			}
			return nil
		}
	}
	sel := info.Selections[se]
	if sel == nil || sel.Kind() != types.MethodVal {
		return nil
	}
	fn, ok := sel.Obj().(*types.Func)
	if !ok {
		return nil
	}
	sig := fn.Type().(*types.Signature)
	if sig.Recv() == nil {
		return nil
	}
	ppath, tname := namedOf(sig.Recv().Type())
	if ppath != "sync" && ppath != "sync/atomic" {
		return nil
	}
	if ppath == "sync" && tname == "Locker" {
		// c.L.Lock() and friends: an interface value, dispatched at run time to the modelled mutex kinds
		switch fn.Name() {
		case "Lock", "Unlock":
			sid := newSite("mutex", r.pkg.PkgPath, n.Pos(), "Locker."+fn.Name())
			return &ast.CallExpr{Fun: rtSel("Locker" + fn.Name()), Args: []ast.Expr{se.X, intLit(sid)}}
		}
		fatalf("%s: sync.Locker.%s not modelled: extend the instrumenter", fset.Position(n.Pos()), fn.Name())
		return nil
	}
	recv, ok := receiverPointer(se.X, sel)
	if !ok {
		fatalf("%s: cannot build receiver for %s.%s", fset.Position(n.Pos()), tname, fn.Name())
		return nil
	}
	if ppath == "sync" && tname == "Cond" {
		switch fn.Name() {
		case "Wait", "Signal", "Broadcast":
			sid := newSite("cond", r.pkg.PkgPath, n.Pos(), "Cond."+fn.Name())
			return &ast.CallExpr{Fun: rtSel("Cond" + fn.Name()), Args: []ast.Expr{recv, intLit(sid)}}
		}
		fatalf("%s: sync.Cond.%s not modelled: extend the instrumenter", fset.Position(n.Pos()), fn.Name())
		return nil
	}
	if ppath == "sync" && tname == "Pool" {
		switch fn.Name() {
		case "Get":
			newSite("poolget", r.pkg.PkgPath, n.Pos(), "")
			return &ast.CallExpr{Fun: rtSel("PoolGet"), Args: []ast.Expr{recv}}
		case "Put":
			newSite("poolput", r.pkg.PkgPath, n.Pos(), "")
			return &ast.CallExpr{Fun: rtSel("PoolPut"), Args: append([]ast.Expr{recv}, n.Args...)}
		}
		fatalf("%s: unknown sync.Pool method %s", fset.Position(n.Pos()), fn.Name())
		return nil
	}
	if ppath == "sync" && (tname == "Mutex" || tname == "RWMutex") {
		var name string
		switch fn.Name() {
		case "Lock", "Unlock", "RLock", "RUnlock":
			name = tname + fn.Name()
		case "TryLock", "TryRLock":
			sid := newSite("sync", r.pkg.PkgPath, n.Pos(), tname+"."+fn.Name())
			se.X = &ast.CallExpr{Fun: rtSel("Y"), Args: []ast.Expr{intLit(sid), recv}}
			r.changed = true
			return nil
		default:
			fatalf("%s: sync.%s.%s not modelled: extend the instrumenter", fset.Position(n.Pos()), tname, fn.Name())
			return nil
		}
		sid := newSite("mutex", r.pkg.PkgPath, n.Pos(), tname+"."+fn.Name())
		return &ast.CallExpr{Fun: rtSel(name), Args: []ast.Expr{recv, intLit(sid)}}
	}
	if ppath == "sync" {
		switch tname {
		case "Once", "Map":
			// a scheduling point before the real operation
		default:
			fatalf("%s: sync.%s not modelled: extend the instrumenter", fset.Position(n.Pos()), tname)
			return nil
		}
	}
	// sync.Once, sync.Map, atomic.Value, atomic.Int32, ...: rt.Y(site, recv).Method(args)
	sid := newSite("sync", r.pkg.PkgPath, n.Pos(), tname+"."+fn.Name())
	se.X = &ast.CallExpr{Fun: rtSel("Y"), Args: []ast.Expr{intLit(sid), recv}}
	r.changed = true
	return nil
}

// writeGenerated adds the in-package accessors (build tag verif; the scratch copy is always built with it).
func writeGenerated(p *packages.Package) {
	need := []string{"resetPools", "pools", "defaultOpts", "emptyResult", "Result", "Opts", "withRecycleResults", "newSchemaValidator", "SchemaValidatorOptions"}
	scope := p.Types.Scope()
	for _, n := range need {
		if scope.Lookup(n) == nil {
			fatalf("generated accessors: package %s has no identifier %q any more: adapt instr/main.go", p.PkgPath, n)
		}
	}
	if fatalN > 0 {
		return
	}
	// every package-level variable of the package (whatever a change adds or retypes) is put back to its initial value by
	// VerifResetGlobals: collected here from the type information, restored by reflection in the generated file
	var varNames []string
	for _, n := range scope.Names() {
		v, ok := scope.Lookup(n).(*types.Var)
		if !ok || n == "_" || n == "pools" || strings.HasPrefix(n, "verif") {
			continue
		}
		if _, isFunc := v.Type().Underlying().(*types.Signature); isFunc {
			continue
		}
		varNames = append(varNames, n)
	}
	sort.Strings(varNames)
	var varList strings.Builder
	for _, n := range varNames {
		fmt.Fprintf(&varList, "\t{%q, &%s},\n", n, n)
	}
	dir := filepath.Dir(p.CompiledGoFiles[0])
	src := `//go:build verif

// Code generated by /verif/instr for the scratch copy only. DO NOT EDIT.

package validate

import (
	"reflect"
	"sync"
	"unsafe"

	"github.com/go-openapi/spec"
	"github.com/go-openapi/strfmt"
)

// verifVars: every package-level variable of the package (but the pools, which resetPools() renews).
var verifVars = []struct {
	name string
	p    any
}{
@VARLIST@}

type verifSnap struct {
	v        reflect.Value
	emptyMap bool
}

// verifSnaps holds a (shallow) copy of every package-level variable as package initialisation left it: no constant of
// the implementation is mirrored, and a variable that a change adds or retypes is covered without touching this file.
var verifSnaps []verifSnap

// VerifInit takes the snapshot. It is called by the harness at process start, i.e. after ALL initialisation of the
// package (variable initialisers and init functions: tables filled by an init() are part of the initial state) and
// before the library is used.
func VerifInit() {
	if verifSnaps == nil {
		verifSnaps = verifSnapshot()
	}
}

func verifSnapshot() []verifSnap {
	out := make([]verifSnap, len(verifVars))
	for i, e := range verifVars {
		v := reflect.ValueOf(e.p).Elem()
		c := reflect.New(v.Type()).Elem()
		c.Set(v)
		out[i] = verifSnap{v: c, emptyMap: v.Kind() == reflect.Map && !v.IsNil() && v.Len() == 0}
	}
	return out
}

// VerifResetGlobals puts the process-wide state of the package back to what a fresh process has: new pools, every
// package-level variable back to its initial value (a map that started empty becomes a new empty map; what a pointer or
// a non-empty map refers to cannot be rolled back).
func VerifResetGlobals() {
	VerifInit()
	resetPools()
	for i, e := range verifVars {
		v := reflect.ValueOf(e.p).Elem()
		if verifSnaps[i].emptyMap {
			v.Set(reflect.MakeMap(v.Type()))
			continue
		}
		v.Set(verifSnaps[i].v)
	}
}

// VerifPoolNames maps every pool of the package to the name of its field.
func VerifPoolNames() map[*sync.Pool]string {
	out := map[*sync.Pool]string{}
	v := reflect.ValueOf(&pools).Elem()
	for i := 0; i < v.NumField(); i++ {
		f := v.Field(i)
		if f.Kind() != reflect.Struct {
			continue
		}
		for j := 0; j < f.NumField(); j++ {
			g := f.Field(j)
			if g.Kind() == reflect.Ptr && g.Type() == reflect.TypeOf((*sync.Pool)(nil)) && !g.IsNil() {
				out[(*sync.Pool)(unsafe.Pointer(g.Pointer()))] = v.Type().Field(i).Name
			}
		}
	}
	return out
}

// VerifBorrowResult / VerifRedeemResult give the harness pooled results as operands (C20).
func VerifBorrowResult() *Result { return pools.poolOfResults.BorrowResult() }

func VerifRedeemResult(r *Result) { pools.poolOfResults.RedeemResult(r) }

// VerifPooledValidation validates data the way AgainstSchema does internally (recycled validators AND recycled
// results) and hands out the pooled result itself: a pooled operand that carries schemata (C20).
func VerifPooledValidation(schema *spec.Schema, data interface{}, formats strfmt.Registry) *Result {
	opts := new(SchemaValidatorOptions)
	for _, o := range []Option{WithRecycleValidators(true), withRecycleResults(true)} {
		o(opts)
	}
	return newSchemaValidator(schema, nil, "", formats, opts).Validate(data)
}

// VerifDefaultOpts returns the current package-level defaults (read without synchronisation: quiescent use only).
func VerifDefaultOpts() Opts { return defaultOpts }

// VerifEmptyResult returns the shared empty result.
func VerifEmptyResult() *Result { return emptyResult }

// VerifWantsRedeem tells whether merging r releases it to the pool.
func VerifWantsRedeem(r *Result) bool { return r != nil && r.wantsRedeemOnMerge }

`
	src = strings.Replace(src, "@VARLIST@", varList.String(), 1)
	out := filepath.Join(dir, "zz_verif_generated.go")
	b, err := format.Source([]byte(src))
	if err != nil {
		fatalf("generated file: %v", err)
		return
	}
	if err := os.WriteFile(out, b, 0o644); err != nil {
		fatalf("%v", err)
	}
}
