#!/usr/bin/env python3
"""seeded_report.py <run_seeded log> [needs.json]: writes /verif/seeded/RESULTS.md (kill matrix) and fills meta.json."""
import json, os, re, sys, subprocess
log = open(sys.argv[1]).read().strip().split("\n")
needs = json.load(open(sys.argv[2])) if len(sys.argv) > 2 else {}
head = subprocess.run(["git", "-C", "/verif", "rev-parse", "--short", "HEAD"], capture_output=True, text=True).stdout.strip()
rows = []
for l in log:
    m = re.match(r"^(\S+) \((C\d+)\): (CAUGHT|MISSED|PATCH DOES NOT APPLY)(?: in (\d+)s)?\s*(?:\[(.*)\])?", l)
    if not m:
        continue
    name, prop, verdict, secs, sig = m.groups()
    rows.append((name, prop, verdict, secs or "", sig or ""))
    mp = f"/verif/seeded/{name}/meta.json"
    if os.path.exists(mp):
        meta = json.load(open(mp))
        if name in needs:
            meta["needs"] = needs[name]
        meta["what_i_ran"] = f"lib/intake_seeded.sh (independent confirmation in a scratch worktree), then lib/run_seeded.sh {name}: ./check {prop} quick with VERIF_REPO pointing at a scratch worktree of /repo with patch.diff applied"
        meta["check_result"] = {"verdict": verdict, "seconds": secs, "violation_signature": sig, "verif_commit": head}
        json.dump(meta, open(mp, "w"), indent=1)
with open("/verif/seeded/RESULTS.md", "w") as f:
    f.write("# Seeded property-breaking changes vs checks\n\n")
    f.write("Each change was written by an independent sub-agent that saw only the property text and a scratch worktree (nothing from /verif),\n")
    f.write("was confirmed independently (`lib/intake_seeded.sh`: compiles, existing suite passes, demonstration fails with / passes without),\n")
    f.write(f"and was then run through the quick check of its property (`lib/run_seeded.sh`, /verif at {head}).\n\n")
    f.write("| change | property | check verdict | time | violation signature | what it needs to manifest |\n|---|---|---|---|---|---|\n")
    for name, prop, verdict, secs, sig in rows:
        f.write(f"| {name} | {prop} | {verdict} | {secs}s | `{sig}` | {needs.get(name,'see README.md')} |\n")
    k = sum(1 for r in rows if r[2] == "CAUGHT")
    f.write(f"\n{k} of {len(rows)} caught by the quick tier.\n")
print(open("/verif/seeded/RESULTS.md").read()[-300:])
