#!/bin/bash
# developer helper: refresh harness sources in an existing scratch and rebuild (no re-instrumentation)
S=${1:-/tmp/vs-test}; shift
export GOFLAGS=-mod=mod GOPROXY=off GOSUMDB=off GOTOOLCHAIN=local
rsync -a --exclude go.mod --exclude go.sum /verif/harness/ $S/harness/ && rsync -a /verif/rt/ $S/rt/ && cd $S/harness && go build "$@" -tags verif -trimpath -o $S/sim .
