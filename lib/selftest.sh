#!/bin/bash
# selftest.sh <scratch> [quick|full]
#  (a) the rewritten copy of the library passes the repository's own test-suite (native, sorted and one permuted map order)
#  (b) determinism: same seed => identical event-log hashes across fresh processes and GOMAXPROCS 1/4/16, plain and -race builds
#  (c) sensitivity: every change kept under /verif/seeded is caught by the check of its property (lib/run_seeded.sh), full mode only
set -uo pipefail
S=${1:?scratch}
MODE=${2:-quick}
V=$(cd "$(dirname "$(readlink -f "$0")")/.." && pwd)
export GOFLAGS=-mod=mod GOPROXY=off GOSUMDB=off GOTOOLCHAIN=local
fail() { echo "SELFTEST-FAIL: $*"; exit 2; }

echo "== (a) repository test-suite on the rewritten copy"
"$V/lib/mkscratch.sh" "$S" withtests || fail "mkscratch"
( cd "$S/validate" && go mod edit -replace github.com/go-openapi/spec=../deps/spec -replace github.com/go-openapi/analysis=../deps/analysis \
    -replace github.com/go-openapi/loads=../deps/loads -replace github.com/go-openapi/swag=../deps/swag -replace verif.local/rt=../rt \
    -require verif.local/rt@v0.0.0 ) || fail "go mod edit"
orders="native 0"
[ "$MODE" = full ] && orders="native 0 12345"
for o in $orders; do
  if [ "$o" = native ]; then unset VERIF_ORDER_SEED; else export VERIF_ORDER_SEED=$o; fi
  ( cd "$S/validate" && go test -tags verif -vet=off -count=1 -timeout 25m ./... ) > "$S/test-$o.log" 2>&1
  bad=$(grep -E "^--- FAIL" "$S/test-$o.log" | grep -v -E "ExampleSpec_second|ExampleSpecValidator_Validate_url" || true)
  npass=$(grep -c -E "^(ok|FAIL)\s" "$S/test-$o.log" || true)
  if [ -n "$bad" ] || [ "$npass" -lt 2 ]; then tail -30 "$S/test-$o.log"; fail "rewritten copy fails tests of the repository under map order '$o': $bad"; fi
  echo "   map order $o: ok (only the two network examples fail, as in the baseline)"
done
unset VERIF_ORDER_SEED

echo "== (b) determinism"
( cd "$S/harness" && go build -tags verif -trimpath -o "$S/sim" . && go build -race -tags verif -trimpath -o "$S/simrace" . ) || fail "build"
N=64; [ "$MODE" = full ] && N=160
for p in C04 C08 C10 C11 C20 C15 C05; do
  n=$N; [ "$p" = C10 ] && n=6; [ "$p" = C05 ] && n=$((N/2))
  ref=""
  for run in 1 2 3; do
    for gmp in 1 4 16; do
      bin="$S/sim"; { [ "$p" = C05 ] || [ "$p" = C15 ]; } && [ "$run" = 3 ] && bin="$S/simrace"
      h=$(GOMAXPROCS=$gmp GORACE="halt_on_error=0 log_path=$S/racelog" "$bin" detlog -prop $p -seed 7 -from 0 -n $n 2>/dev/null | grep -v '^#' | cut -d' ' -f1,2 | sha256sum | cut -c1-16)
      [ -z "$ref" ] && ref=$h
      [ "$h" = "$ref" ] || fail "nondeterminism: $p run=$run GOMAXPROCS=$gmp hash $h != $ref"
    done
  done
  echo "   $p: $n seeds x 3 processes x GOMAXPROCS 1/4/16 identical ($ref)"
done

if [ "$MODE" = full ]; then
  echo "== (c) sensitivity: seeded changes"
  "$V/lib/run_seeded.sh" || fail "a seeded change was missed"
fi
echo "SELFTEST-OK"
