#!/bin/bash
# intake_seeded.sh <src-dir> <property> <name>
# Confirms a candidate property-breaking change independently, in a scratch worktree of /repo:
#   patch applies and compiles; the repository's test-suite (minus the two network examples) passes with it;
#   the demonstration passes without the change and fails with it.  On success copies it to /verif/seeded/<name>/.
set -uo pipefail
SRC=${1:?src dir}; PROP=${2:?property}; NAME=${3:?name}
export GOFLAGS=-mod=mod GOPROXY=off GOSUMDB=off GOTOOLCHAIN=local
wt=$(mktemp -d /tmp/verif-intake-XXXXXX)
log=$(mktemp /tmp/verif-intake-log-XXXXXX)
cleanup() { git -C /repo worktree remove --force "$wt" >/dev/null 2>&1; rm -rf "$wt" "$log" "$log.retry"; }
trap cleanup EXIT
git -C /repo worktree add -f --detach "$wt" HEAD >/dev/null 2>&1 || { echo "$NAME: worktree failed"; exit 2; }
demos=$(ls "$SRC"/*_test.go 2>/dev/null)
[ -n "$demos" ] || { echo "$NAME: no demonstration test file"; exit 1; }
cp $demos "$wt/"
tests=$(grep -h -o -E '^func (Test\w+)' $demos | awk '{print $2}' | paste -sd'|')
[ -n "$tests" ] || { echo "$NAME: no Test functions in demo"; exit 1; }
run_demo() { # $1 = extra flags
  ( cd "$wt" && go test $1 -vet=off -count=1 -timeout 20m -run "^($tests)\$" . ) >"$log" 2>&1
}
race=""
run_demo ""; rc_clean=$?
if [ $rc_clean -ne 0 ]; then echo "$NAME: REJECT demo fails WITHOUT the change"; tail -5 "$log"; exit 1; fi
git -C "$wt" apply "$SRC/patch.diff" 2>>"$log" || { echo "$NAME: REJECT patch does not apply"; exit 1; }
( cd "$wt" && go build ./... ) >>"$log" 2>&1 || { echo "$NAME: REJECT does not compile"; exit 1; }
run_demo ""; rc_mut=$?
if [ $rc_mut -eq 0 ]; then
  run_demo "-race"; rc_mut=$?; race="-race"
  if [ $rc_mut -eq 0 ]; then echo "$NAME: REJECT demo passes WITH the change (plain and -race)"; exit 1; fi
  # and it must pass under -race without the change
  git -C "$wt" apply -R "$SRC/patch.diff"; run_demo "-race"; rc=$?
  git -C "$wt" apply "$SRC/patch.diff"
  if [ $rc -ne 0 ]; then echo "$NAME: REJECT demo fails under -race WITHOUT the change"; exit 1; fi
fi
# the existing suite (demo files removed) must still pass with the change
for f in $demos; do rm -f "$wt/$(basename $f)"; done
# TestJSONSchemaSuite binds localhost:1234: run in a private network namespace so that parallel suite runs do not collide
if unshare -rn true 2>/dev/null; then
  ( cd "$wt" && unshare -rn sh -c 'ip link set lo up 2>/dev/null; go test -vet=off -count=1 -timeout 25m ./...' ) >"$log" 2>&1
else
  ( cd "$wt" && go test -vet=off -count=1 -timeout 25m ./... ) >"$log" 2>&1
fi
bad=$(grep -E "^--- FAIL" "$log" | grep -v -E "ExampleSpec_second|ExampleSpecValidator_Validate_url" || true)
# TestJSONSchemaSuite starts its own HTTP server in a goroutine and races with it on a loaded machine ("connection
# refused", fails within 0.00s): when it is the only failure, give that test two more tries on its own
if [ -n "$bad" ] && [ -z "$(echo "$bad" | grep -v -E "TestJSONSchemaSuite")" ]; then
  for try in 1 2; do
    if ( cd "$wt" && unshare -rn sh -c 'ip link set lo up 2>/dev/null; go test -vet=off -count=1 -timeout 25m -run TestJSONSchemaSuite .' ) >"$log.retry" 2>&1; then
      bad=""; break
    fi
  done
fi
if [ -n "$bad" ] || ! grep -q -E "^(ok|FAIL)\s+github.com/go-openapi/validate\s" "$log"; then echo "$NAME: REJECT existing tests fail with the change: $bad"; tail -5 "$log"; exit 1; fi
dst=/verif/seeded/$NAME
mkdir -p "$dst"
cp "$SRC/patch.diff" "$dst/"; cp $demos "$dst/"; [ -f "$SRC/README.md" ] && cp "$SRC/README.md" "$dst/README.md"
python3 - "$dst" "$PROP" "$race" "$tests" <<'PY'
import json,sys
dst,prop,race,tests=sys.argv[1:5]
json.dump({"property":prop,"source":"independent sub-agent given only the property text and a scratch worktree",
 "demo_tests":tests,"demo_flags":race,
 "confirmed":"lib/intake_seeded.sh: patch applies and compiles; repository test-suite passes with it (minus the two network examples); demonstration passes without the change and fails with it"+(" (under -race)" if race else ""),
 "needs":"see README.md"}, open(dst+"/meta.json","w"), indent=1)
PY
echo "$NAME: ACCEPTED ($PROP) demo=[$tests] $race"
