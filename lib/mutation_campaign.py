#!/usr/bin/env python3
"""Systematic sensitivity campaign (scratch worktrees only, nothing is committed to /repo).

Generates single-site mutants of go-openapi/validate in the forms that matter for the claimed properties and runs the
check of the property each one should break:

  stale     constructor field assignment kept only for non-zero values ("if x != nil { v.X = x }"): a FRESH object stays
            correct, a RECYCLED one keeps the previous validation's value                       -> C04
  cleared   one statement of Result.cleared() removed                                              -> C04 (and C20)
  slot      one "forget the child" statement (validators[idx] = nil, xxxValidators[i] = nil) removed -> C04 / C11
  rexp      regexp cache: wrong key, in-place update, dropped lock                                -> C15
  result    Result merge arithmetic / de-duplication                                              -> C20
  order     a sort added by the fix: commits removed again                                        -> C10

usage: mutation_campaign.py [--kinds stale,cleared,...] [--limit N] [--out DIR] [--runs N]
Writes <out>/results.json and prints one line per mutant: KILLED / SURVIVED / NOCOMPILE.
"""
import argparse, json, os, re, subprocess, sys, tempfile, time, shutil

REPO = os.environ.get("VERIF_REPO_SRC", "/repo")
VERIF = os.path.dirname(os.path.dirname(os.path.abspath(__file__)))
ENV = dict(os.environ, GOFLAGS="-mod=mod", GOPROXY="off", GOSUMDB="off", GOTOOLCHAIN="local")


def sh(cmd, cwd=None, env=None, timeout=3600):
    p = subprocess.run(cmd, cwd=cwd, env=env or ENV, capture_output=True, text=True, timeout=timeout)
    return p.returncode, p.stdout + p.stderr


def read(path):
    with open(path) as f:
        return f.read()


def gen_stale():
    """constructor assignments 'x.F = param' inside new*Validator functions"""
    out = []
    for fn in ["validator.go", "type.go", "formats.go", "object_validator.go", "slice_validator.go", "schema_props.go", "schema.go"]:
        src = read(os.path.join(REPO, fn)).split("\n")
        infunc = None
        for i, line in enumerate(src):
            m = re.match(r"^func (new\w+)\(", line)
            if m:
                infunc = m.group(1)
            if line.startswith("}"):
                infunc = None
            if not infunc:
                continue
            m = re.match(r"^\t(\w+)\.(\w+) = (\w+)$", line)
            if not m:
                continue
            recv, field, val = m.groups()
            if field in ("Options", "validators") or val in ("opts", "nil"):
                continue
            for zero in ("nil", '""', "false"):
                cond = f"{val} != {zero}" if zero != "false" else val
                new = src[:i] + [f"\tif {cond} {{", f"\t\t{recv}.{field} = {val}", "\t}"] + src[i + 1:]
                out.append(dict(kind="stale", file=fn, line=i + 1, prop="C04", desc=f"{infunc}: {recv}.{field} assigned only when {cond}", text="\n".join(new), alt=zero))
    return out


def gen_cleared():
    out = []
    fn = "result.go"
    src = read(os.path.join(REPO, fn)).split("\n")
    start = next(i for i, l in enumerate(src) if l.startswith("func (r *Result) cleared()"))
    i = start + 1
    while not src[i].startswith("}"):
        l = src[i]
        if re.match(r"^\tr\.\w+(\.\w+)? = ", l):
            new = src[:i] + src[i + 1:]
            out.append(dict(kind="cleared", file=fn, line=i + 1, prop="C04", desc=f"cleared(): removed `{l.strip()}`", text="\n".join(new)))
        i += 1
    return out


def gen_slot():
    out = []
    for fn in ["schema.go", "validator.go", "schema_props.go"]:
        src = read(os.path.join(REPO, fn)).split("\n")
        for i, l in enumerate(src):
            if re.match(r"^\t+\w+\.(validators\[\w+\]|\w+Validators\[\w+\]|notValidator) = nil", l) and "free up allocated children" not in l:
                # keep the statement syntactically harmless: replace by a no-op
                new = src[:i] + [re.sub(r"\S.*", "_ = 0 // mutant: slot not forgotten", l, count=1)] + src[i + 1:]
                out.append(dict(kind="slot", file=fn, line=i + 1, prop="C11", desc=f"{fn}:{i+1} `{l.strip()[:60]}` removed", text="\n".join(new)))
    return out


def gen_rexp():
    fn = "rexp.go"
    s = read(os.path.join(REPO, fn))
    out = []

    def m(desc, old, new, count=1):
        if s.count(old) < 1:
            return
        out.append(dict(kind="rexp", file=fn, line=0, prop="C15", desc=desc, text=s.replace(old, new, count)))
    m("compileRegexp: cache looked up by lower-cased pattern", 'if r := cache[pattern]; r != nil {\n\t\t\treturn r, nil', 'if r := cache[strings.ToLower(pattern)]; r != nil {\n\t\t\treturn r, nil')
    m("cacheRegexp: stored under the trimmed pattern", "r.String(): r,", "strings.TrimSpace(r.String()): r,")
    m("cacheRegexp: map updated in place (no copy-on-write)", "\t\tnewCache := map[string]*re.Regexp{\n\t\t\tr.String(): r,\n\t\t}\n\n\t\tfor k, v := range cache {\n\t\t\tnewCache[k] = v\n\t\t}\n",
      "\t\tnewCache := cache\n\t\tif newCache == nil {\n\t\t\tnewCache = map[string]*re.Regexp{}\n\t\t}\n\t\tnewCache[r.String()] = r\n")
    m("cacheRegexp: writer lock dropped", "\tcacheMutex.Lock()\n\tdefer cacheMutex.Unlock()\n", "")
    m("cacheRegexp: previous entries not copied (cache shrinks to one entry; legal: only recompilation)", "\t\tfor k, v := range cache {\n\t\t\tnewCache[k] = v\n\t\t}\n", "\t\t_ = cache\n")
    for o in out:
        if "strings." in o["text"] and '"strings"' not in o["text"]:
            o["text"] = o["text"].replace('import (\n', 'import (\n\t"strings"\n', 1)
    return out


def gen_result():
    fn = "result.go"
    s = read(os.path.join(REPO, fn))
    out = []

    def m(desc, old, new, count=1, prop="C20"):
        if s.count(old) < 1:
            return
        out.append(dict(kind="result", file=fn, line=0, prop=prop, desc=desc, text=s.replace(old, new, count)))
    m("mergeWithoutRootSchemata: match count not added", "\tr.AddWarnings(other.Warnings...)\n\tr.MatchCount += other.MatchCount\n", "\tr.AddWarnings(other.Warnings...)\n")
    m("MergeAsErrors: warnings of the operand dropped", "\t\t\tr.AddErrors(other.Warnings...)\n", "")
    m("MergeAsWarnings: errors of the operand dropped", "\t\t\tr.AddWarnings(other.Errors...)\n", "")
    m("AddErrors: de-duplication compares with the last message only", "\t\t\tfor _, isReported := range r.Errors {\n\t\t\t\tif e.Error() == isReported.Error() {", "\t\t\tfor _, isReported := range lastOf(r.Errors) {\n\t\t\t\tif e.Error() == isReported.Error() {")
    m("AddWarnings: nil not ignored", "\tfor _, e := range warnings {\n\t\tfound := false\n\t\tif e != nil {", "\tfor _, e := range warnings {\n\t\tfound := false\n\t\tif e != nil || len(r.Warnings) == 3 {")
    m("AddErrors: fast path aliases the operand's slice when the receiver is empty", "func (r *Result) AddErrors(errors ...error) {\n", "func (r *Result) AddErrors(errors ...error) {\n\tif len(r.Errors) == 0 && len(errors) > 1 && noNilNoDup(errors) {\n\t\tr.Errors = errors\n\t\treturn\n\t}\n")
    m("Merge: operand released before its warnings are read", "\t\tr.mergeWithoutRootSchemata(other)\n\t\tr.rootObjectSchemata.Append(other.rootObjectSchemata)\n\t\tif other.wantsRedeemOnMerge {\n\t\t\tpools.poolOfResults.RedeemResult(other)\n\t\t}\n",
      "\t\tif other.wantsRedeemOnMerge {\n\t\t\tpools.poolOfResults.RedeemResult(other)\n\t\t}\n\t\tr.mergeWithoutRootSchemata(other)\n\t\tr.rootObjectSchemata.Append(other.rootObjectSchemata)\n", prop="C05")
    helper = "\nfunc lastOf(e []error) []error {\n\tif len(e) == 0 {\n\t\treturn nil\n\t}\n\treturn e[len(e)-1:]\n}\n\nfunc noNilNoDup(e []error) bool {\n\tseen := map[string]bool{}\n\tfor _, x := range e {\n\t\tif x == nil || seen[x.Error()] {\n\t\t\treturn false\n\t\t}\n\t\tseen[x.Error()] = true\n\t}\n\treturn true\n}\n"
    for o in out:
        o["text"] += helper
    return out


def gen_order():
    fn = "spec.go"
    s = read(os.path.join(REPO, fn))
    out = []

    def m(desc, old, new):
        if s.count(old) < 1:
            return
        out.append(dict(kind="order", file=fn, line=0, prop="C10", desc=desc, text=s.replace(old, new, 1)))
    m("duplicate properties: names no longer sorted", "\t\t\tsort.Strings(pns)\n", "")
    m("required definitions: visited in map order again", "\tsort.Strings(names)\n\nDEFINITIONS:", "\nDEFINITIONS:")
    m("circular ancestry: definitions visited in map order again", "\tsort.Strings(names)\n\n\tfor _, k := range names {", "\n\tfor _, k := range names {")
    m("overlapping paths: visited in map order again", "\t\tsort.Strings(paths)\n", "")
    m("validateRequiredDefinitions: validity read after Merge again", "\t\t\t\tisValid := red.IsValid() // red is relinquished to the pool by Merge: do not use it afterwards\n\t\t\t\tres.Merge(red)\n\t\t\t\tif !isValid &&", "\t\t\t\tres.Merge(red)\n\t\t\t\tif !red.IsValid() &&")
    out[-1]["prop"] = "C05" if out else None
    return out


GENS = dict(stale=gen_stale, cleared=gen_cleared, slot=gen_slot, rexp=gen_rexp, result=gen_result, order=gen_order)


def main():
    ap = argparse.ArgumentParser()
    ap.add_argument("--kinds", default="stale,cleared,slot,rexp,result,order")
    ap.add_argument("--limit", type=int, default=0)
    ap.add_argument("--out", default="/tmp/verif-mutation-campaign")
    ap.add_argument("--runs", type=int, default=0, help="VERIF_RUNS override for each check")
    ap.add_argument("--with-tests", action="store_true", help="also run the repository's own test-suite on every mutant")
    a = ap.parse_args()
    os.makedirs(a.out, exist_ok=True)
    muts = []
    for k in a.kinds.split(","):
        muts += GENS[k]()
    if a.limit:
        muts = muts[:a.limit]
    results = []
    wt = tempfile.mkdtemp(prefix="verif-mc-")
    rc, o = sh(["git", "-C", REPO, "worktree", "add", "-f", "--detach", wt, "HEAD"])
    if rc != 0:
        print(o)
        sys.exit(2)
    try:
        seen_ok = set()
        for n, mu in enumerate(muts):
            key = (mu["file"], mu["line"], mu["kind"])
            if mu["kind"] == "stale" and key in seen_ok:
                continue  # another zero-literal variant of the same site already compiled
            path = os.path.join(wt, mu["file"])
            orig = read(path)
            with open(path, "w") as f:
                f.write(mu["text"])
            rc, o = sh(["go", "build", "./..."], cwd=wt)
            if rc != 0:
                with open(path, "w") as f:
                    f.write(orig)
                if mu["kind"] != "stale":
                    print(f"[{n}] NOCOMPILE {mu['kind']} {mu['desc']}\n{o[:300]}")
                    results.append(dict(mu, text=None, verdict="NOCOMPILE"))
                continue
            seen_ok.add(key)
            tests = None
            if a.with_tests:
                rc, o = sh(["go", "test", "-vet=off", "-count=1", "-timeout", "25m", "./..."], cwd=wt)
                bad = [l for l in o.split("\n") if l.startswith("--- FAIL") and "ExampleSpec_second" not in l and "ExampleSpecValidator_Validate_url" not in l]
                tests = "pass" if not bad else "fail:" + ";".join(b[9:60] for b in bad[:3])
            env = dict(ENV, VERIF_REPO=wt, VERIF_EVIDENCE_DIR=os.path.join(a.out, "ev"), VERIF_VIOL_DIR=os.path.join(a.out, "viol"))
            if a.runs:
                env["VERIF_RUNS"] = str(a.runs)
            t0 = time.time()
            rc, o = sh([os.path.join(VERIF, "check"), mu["prop"], "quick"], cwd=VERIF, env=env)
            dt = time.time() - t0
            sig = ""
            for l in o.split("\n"):
                if l.startswith("--- violation"):
                    sig = l[14:].strip()
                    break
            verdict = "KILLED" if rc == 1 and "VIOLATION property=" in o else ("SURVIVED" if rc == 0 else f"ERROR(rc={rc})")
            print(f"[{n}] {verdict:9s} {mu['prop']} {mu['kind']:7s} {mu['desc']}  tests={tests} {dt:.0f}s {sig}", flush=True)
            if verdict.startswith("ERROR"):
                print(o[-600:])
            results.append(dict(mu, text=None, verdict=verdict, tests=tests, seconds=round(dt), signature=sig))
            with open(path, "w") as f:
                f.write(orig)
            with open(os.path.join(a.out, "results.json"), "w") as f:
                json.dump(results, f, indent=1)
    finally:
        sh(["git", "-C", REPO, "worktree", "remove", "--force", wt])
        shutil.rmtree(wt, ignore_errors=True)
    k = sum(1 for r in results if r["verdict"] == "KILLED")
    s = sum(1 for r in results if r["verdict"] == "SURVIVED")
    print(f"TOTAL mutants={len(results)} killed={k} survived={s}")


if __name__ == "__main__":
    main()
