#!/bin/bash
# run_seeded_par.sh [jobs]: lib/run_seeded.sh for every kept change, <jobs> changes at a time (default 3); one line per change.
V=$(cd "$(dirname "$(readlink -f "$0")")/.." && pwd)
J=${1:-3}
ls "$V/seeded" | grep -v -E '\.md$|\.json$' | xargs -P "$J" -I{} "$V/lib/run_seeded.sh" {} | grep -v conda
