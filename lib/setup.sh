#!/bin/bash
# setup: build the instrumenter and warm the Go build cache for the simulator (plain and -race). Offline.
set -uo pipefail
export GOFLAGS=-mod=mod GOPROXY=off GOSUMDB=off GOTOOLCHAIN=local
V=$(cd "$(dirname "$(readlink -f "$0")")/.." && pwd)
mkdir -p "$V/build" "$V/evidence" "$V/violations"
( cd "$V/instr" && go build -o "$V/build/instr" . ) || { echo "setup: building the instrumenter failed" >&2; exit 2; }
S=$(mktemp -d "${TMPDIR:-/tmp}/verif-setup-XXXXXX") || exit 2
trap 'rm -rf "$S"' EXIT
"$V/lib/mkscratch.sh" "$S" || exit 2
( cd "$S/harness" && go build -tags verif -trimpath -o "$S/sim" . ) || { echo "setup: simulator build failed" >&2; exit 2; }
( cd "$S/harness" && go build -race -tags verif -trimpath -o "$S/simrace" . ) || { echo "setup: -race simulator build failed" >&2; exit 2; }
echo "setup: ok"
