#!/bin/bash
# mkscratch.sh <scratch-dir> [withtests]
# Builds an instrumented scratch copy of /repo's current working tree (+ go-openapi deps for map order)
# under <scratch-dir>. Nothing in /repo is touched. Exit 2 on any trouble.
set -uo pipefail
S=${1:?scratch dir}
WITHTESTS=${2:-}
export GOFLAGS=-mod=mod GOPROXY=off GOSUMDB=off GOTOOLCHAIN=local
V=$(cd "$(dirname "$(readlink -f "$0")")/.." && pwd)
REPO=${VERIF_REPO:-/repo}
MODCACHE=$(go env GOMODCACHE)
fail() { echo "mkscratch: $*" >&2; exit 2; }

mkdir -p "$S" || fail "mkdir $S"
rm -rf "$S/validate" "$S/deps" "$S/rt" "$S/harness"
mkdir -p "$S/validate" "$S/deps"
if [ -n "$WITHTESTS" ]; then
  rsync -a --exclude .git "$REPO/" "$S/validate/" || fail "copy repo"
else
  rsync -a --exclude .git --exclude fixtures --exclude '*_test.go' --exclude '*.md' "$REPO/" "$S/validate/" || fail "copy repo"
fi
# dependency versions as /repo's go.mod pins them
for m in spec analysis loads swag; do
  ver=$(cd "$REPO" && go list -m -f '{{.Version}}' github.com/go-openapi/$m 2>/dev/null) || fail "go list -m $m"
  src="$MODCACHE/github.com/go-openapi/$m@$ver"
  [ -d "$src" ] || fail "module cache has no $src"
  rsync -a --exclude fixtures --exclude '*_test.go' --exclude '.git*' --exclude '*.md' --exclude schemas "$src/" "$S/deps/$m/" || fail "copy $m"
  # spec embeds its json schemas
  if [ -d "$src/schemas" ]; then rsync -a "$src/schemas" "$S/deps/$m/"; fi
  chmod -R u+w "$S/deps/$m"
done
rsync -a "$V/rt/" "$S/rt/" || fail "copy rt"
rsync -a --exclude go.mod --exclude go.sum "$V/harness/" "$S/harness/" || fail "copy harness"
cat > "$S/harness/go.mod" <<EOM
module verif.local/harness

go 1.23

require (
	github.com/anishathalye/porcupine v1.3.0
	github.com/go-openapi/validate v0.0.0
	verif.local/rt v0.0.0
)

replace (
	github.com/go-openapi/validate => ../validate
	github.com/go-openapi/spec => ../deps/spec
	github.com/go-openapi/analysis => ../deps/analysis
	github.com/go-openapi/loads => ../deps/loads
	github.com/go-openapi/swag => ../deps/swag
	verif.local/rt => ../rt
)
EOM
cat "$REPO/go.sum" "$V/lib/extra.sum" 2>/dev/null | sort -u > "$S/harness/go.sum"
# the harness sources must exist for go/packages to resolve the module; instrument the library packages
INSTR="$V/build/instr"
if [ ! -x "$INSTR" ] || [ "$V/instr/main.go" -nt "$INSTR" ]; then
  mkdir -p "$V/build"
  (cd "$V/instr" && go build -o "$INSTR" .) || fail "build instrumenter"
fi
"$INSTR" -dir "$S/harness" -sites "$S/sites.json" \
   github.com/go-openapi/validate github.com/go-openapi/validate/post \
   github.com/go-openapi/spec github.com/go-openapi/analysis/... github.com/go-openapi/loads/... github.com/go-openapi/swag/... \
   > "$S/instr.log" 2>&1 || { cat "$S/instr.log" >&2; fail "instrumenter"; }
exit 0
