#!/bin/bash
# run_seeded.sh [name...]: apply every change kept under /verif/seeded/<name>/patch.diff to a scratch worktree of /repo,
# run the quick check of the property it breaks (meta.json: property) against it, and report caught / missed.
# Never touches /repo's working tree, /verif/evidence or /verif/violations. Exit 0 iff every change is caught.
set -uo pipefail
V=$(cd "$(dirname "$(readlink -f "$0")")/.." && pwd)
OUT=${VERIF_SEEDED_OUT:-/tmp/verif-seeded-out}
mkdir -p "$OUT"
names=("$@")
if [ ${#names[@]} -eq 0 ]; then names=($(ls "$V/seeded" | grep -v -E '\.md$|\.json$')); fi
missed=0
for n in "${names[@]}"; do
  d="$V/seeded/$n"
  [ -f "$d/patch.diff" ] || continue
  prop=$(python3 -c "import json;print(json.load(open('$d/meta.json'))['property'])")
  tier=$(python3 -c "import json;print(json.load(open('$d/meta.json')).get('tier','quick'))")
  wt=$(mktemp -d /tmp/verif-seeded-XXXXXX)
  git -C /repo worktree add -f --detach "$wt" HEAD >/dev/null 2>&1 || { echo "$n: cannot create worktree"; exit 2; }
  if ! git -C "$wt" apply "$d/patch.diff" 2>"$OUT/$n.apply.err"; then
    echo "$n ($prop): PATCH DOES NOT APPLY"; missed=$((missed+1))
  else
    start=$(date +%s)
    VERIF_REPO="$wt" VERIF_EVIDENCE_DIR="$OUT/ev-$n" VERIF_VIOL_DIR="$OUT/viol-$n" "$V/check" "$prop" "$tier" > "$OUT/$n.log" 2>&1
    rc=$?
    el=$(( $(date +%s) - start ))
    if [ $rc -eq 1 ] && grep -q "^VIOLATION property=$prop" "$OUT/$n.log"; then
      sig=$(grep -m1 "^--- violation" "$OUT/$n.log" | cut -c15-120)
      echo "$n ($prop): CAUGHT in ${el}s  [$sig]"
    else
      echo "$n ($prop): MISSED (exit $rc, ${el}s)"; missed=$((missed+1))
    fi
  fi
  git -C /repo worktree remove --force "$wt" >/dev/null 2>&1
  rm -rf "$wt"
done
[ $missed -eq 0 ]
